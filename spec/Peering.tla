------------------------------ MODULE Peering ------------------------------
(* C17 - peering: imports mirror exactly what was exported and touch nothing  *)
(* else; the exporter offers a service to a peer only if an exported-services *)
(* entry names that peer as a consumer.                                       *)
(*                                                                            *)
(* IMPORTER.  The importer's catalog is three tables whose keys all start     *)
(* with the peer name ("" = the local cluster):                               *)
(*   nodes : [peer, node, addr]                key (peer, node)               *)
(*   svcs  : [peer, node, id, name, ver]       key (peer, node, id)           *)
(*   chks  : [peer, node, cid, sid, st]        key (peer, node, cid)          *)
(*           sid = "" : node-level check, otherwise the owning instance id     *)
(* addr / ver / st are opaque attribute values (strings).  The harness writes *)
(* each of them into SEVERAL real fields (address + node meta + tagged        *)
(* address; port + tag + service meta; status + output) and the trace spec    *)
(* maps a row whose copies disagree to the value "inconsistent".              *)
(* (agent/consul/state/catalog_schema.go: indexWithPeerName on every index).  *)
(* `rest` is every other row of the state store, as opaque [peer, tbl, x].    *)
(*                                                                            *)
(* A received snapshot for (peer p, service svc) - one pbpeerstream.          *)
(* ExportedService message, normalised like newHealthSnapshot - is a set of   *)
(*   [node, addr, nchk : set of [cid, st],                                    *)
(*    insts : set of [id, ver, schk : set of [cid, st]]]                      *)
(* one element per exporting node.                                            *)
(*                                                                            *)
(* The specification is functional: Apply(cat, cmd) is total.  The property   *)
(* is stated DECLARATIVELY (Mirror*, NonInterference*, ExportOnlyIfConsumer)  *)
(* and checked (i) by TLC on the constructive Apply over all bounded inputs   *)
(* (PeeringMC) and (ii) on the states recorded from the real handlers         *)
(* (PeeringTrace).                                                            *)
EXTENDS Integers, FiniteSets, Sequences, TLC

Local == ""
SidecarSuffix == "-sidecar-proxy"     \* structs.SidecarProxySuffix / syntheticProxyNameSuffix

EmptyCat == [nodes |-> {}, svcs |-> {}, chks |-> {}, rest |-> {}]

(* ------------------------------------------------------------------------ *)
(* snapshot -> rows (what newHealthSnapshot + the register loop write)        *)
(* ------------------------------------------------------------------------ *)
SnapNodes(snap) == {e.node : e \in snap}
SnapNodeRows(p, snap) == {[peer |-> p, node |-> e.node, addr |-> e.addr] : e \in snap}
SnapSvcRows(p, svc, snap) ==
  UNION {{[peer |-> p, node |-> e.node, id |-> i.id, name |-> svc, ver |-> i.ver] : i \in e.insts} : e \in snap}
SnapNodeChk(p, snap) ==
  UNION {{[peer |-> p, node |-> e.node, cid |-> c.cid, sid |-> "", st |-> c.st] : c \in e.nchk} : e \in snap}
SnapSvcChk(p, snap) ==
  UNION {UNION {{[peer |-> p, node |-> e.node, cid |-> c.cid, sid |-> i.id, st |-> c.st] : c \in i.schk}
                : i \in e.insts} : e \in snap}
SnapChk(p, snap) == SnapNodeChk(p, snap) \cup SnapSvcChk(p, snap)

(* A snapshot the exporter can produce from ITS catalog: one entry per node,  *)
(* at least one instance per entry, ids unique per node, check ids unique     *)
(* per node (the exporter's own keys).                                        *)
WellFormed(snap) ==
  /\ \A e1, e2 \in snap : e1.node = e2.node => e1 = e2
  /\ \A e \in snap :
       /\ e.insts # {}
       /\ \A i1, i2 \in e.insts : i1.id = i2.id => i1 = i2
       /\ \A c1, c2 \in e.nchk : c1.cid = c2.cid => c1 = c2
       /\ \A i \in e.insts : \A c1, c2 \in i.schk : c1.cid = c2.cid => c1 = c2
       /\ \A i \in e.insts : \A c \in i.schk : ~\E d \in e.nchk : d.cid = c.cid
       /\ \A i1, i2 \in e.insts : i1.id # i2.id => ~\E c \in i1.schk : \E d \in i2.schk : c.cid = d.cid

(* ------------------------------------------------------------------------ *)
(* catalog views                                                              *)
(* ------------------------------------------------------------------------ *)
Stored(cat, p, svc) == {s \in cat.svcs : s.peer = p /\ s.name = svc}     \* rows behind CheckServiceNodes(svc, p)
ServicesOf(cat, p) == {s.name : s \in {x \in cat.svcs : x.peer = p}}      \* Store.ServiceList(p)
PeerRows(cat, p) == [nodes |-> {r \in cat.nodes : r.peer = p}, svcs |-> {r \in cat.svcs : r.peer = p},
                     chks |-> {r \in cat.chks : r.peer = p}]

(* Store.CheckServiceNodes(svc, p) as a set of flattened instances:           *)
(* parseCheckServiceNodes joins node row, node-level checks, own checks.      *)
CSN(cat, p, svc) ==
  {[node |-> s.node, id |-> s.id, ver |-> s.ver,
    addr |-> {n.addr : n \in {m \in cat.nodes : m.peer = p /\ m.node = s.node}},
    checks |-> {[cid |-> c.cid, sid |-> c.sid, st |-> c.st] :
                  c \in {d \in cat.chks : d.peer = p /\ d.node = s.node /\ (d.sid = "" \/ d.sid = s.id)}}]
     : s \in Stored(cat, p, svc)}
(* the same view of a snapshot: what the exporter's CheckServiceNodes said *)
SnapCSN(snap) ==
  UNION {{[node |-> e.node, id |-> i.id, ver |-> i.ver, addr |-> {e.addr},
           checks |-> {[cid |-> c.cid, sid |-> "", st |-> c.st] : c \in e.nchk}
                      \cup {[cid |-> c.cid, sid |-> i.id, st |-> c.st] : c \in i.schk}] : i \in e.insts} : e \in snap}

(* ------------------------------------------------------------------------ *)
(* HandleUpdate  ==  Server.handleUpdateService(peerName, _, sn, export)     *)
(*   replication.go: register loop (node, services, checks of every snapshot  *)
(*   node), then reconcile stored instances: deregister instances and service *)
(*   checks that are absent, node checks of snapshot nodes that are absent,   *)
(*   and finally nodes that lost their last service.                          *)
(* ------------------------------------------------------------------------ *)
HandleUpdate(cat, p, svc, snap) ==
  LET stored  == Stored(cat, p, svc)
      snapN   == SnapNodes(snap)
      newSvc  == SnapSvcRows(p, svc, snap)
      newChk  == SnapChk(p, snap)
      sameKeyS(a, b) == a.peer = b.peer /\ a.node = b.node /\ a.id = b.id
      sameKeyC(a, b) == a.peer = b.peer /\ a.node = b.node /\ a.cid = b.cid
      \* nodes of the snapshot are (re)written
      nodes1 == {n \in cat.nodes : ~(n.peer = p /\ n.node \in snapN)} \cup SnapNodeRows(p, snap)
      \* every stored instance of svc is either rewritten from the snapshot or deregistered
      svcs1  == {s \in cat.svcs : ~(s.peer = p /\ (s.name = svc \/ \E t \in newSvc : sameKeyS(s, t)))} \cup newSvc
      \* checks: service checks of svc's instances (old or new) and node checks of snapshot
      \* nodes become exactly the snapshot's; any row with an overwritten key is replaced
      chks1  == {c \in cat.chks :
                   ~(c.peer = p /\ (   (c.sid # "" /\ \E s \in stored \cup newSvc : s.node = c.node /\ s.id = c.sid)
                                    \/ (c.sid = "" /\ c.node \in snapN)
                                    \/ \E d \in newChk : sameKeyC(c, d)))} \cup newChk
      \* unusedNodes: stored a svc instance, not in the snapshot, no service left (NodeServiceList empty)
      unused == {s.node : s \in stored} \ snapN
      gone   == {n \in unused : ~\E s \in svcs1 : s.peer = p /\ s.node = n}
  IN [nodes |-> {n \in nodes1 : ~(n.peer = p /\ n.node \in gone)},
      svcs  |-> svcs1,
      chks  |-> {c \in chks1 : ~(c.peer = p /\ c.node \in gone)},
      rest  |-> cat.rest]

(* ------------------------------------------------------------------------ *)
(* HandleExportList == Server.handleUpsertExportedServiceList                *)
(*   every service name of p (Store.ServiceList) that is neither in `names`   *)
(*   nor the sidecar-proxy twin of a name is reconciled against nil.          *)
(* `twin` maps a name to its twin (TLC strings cannot be concatenated).        *)
(* ------------------------------------------------------------------------ *)
Keep(names, twin) == names \cup {twin[n] : n \in names \cap DOMAIN twin}

RECURSIVE DropAll(_, _, _)
DropAll(cat, p, todo) ==
  IF todo = {} THEN cat
  ELSE LET s == CHOOSE x \in todo : TRUE IN DropAll(HandleUpdate(cat, p, s, {}), p, todo \ {s})

HandleExportList(cat, p, names, twin) == DropAll(cat, p, ServicesOf(cat, p) \ Keep(names, twin))

(* direct registrations used to build prior states (local / other peers / arbitrary imports) *)
Seed(cat, rows) ==
  [nodes |-> {n \in cat.nodes : ~\E r \in rows.nodes : r.peer = n.peer /\ r.node = n.node} \cup rows.nodes,
   svcs  |-> {s \in cat.svcs : ~\E r \in rows.svcs : r.peer = s.peer /\ r.node = s.node /\ r.id = s.id} \cup rows.svcs,
   chks  |-> {c \in cat.chks : ~\E r \in rows.chks : r.peer = c.peer /\ r.node = c.node /\ r.cid = c.cid} \cup rows.chks,
   rest  |-> cat.rest]

Apply(cat, c) ==
  CASE c.t = "upd"  -> HandleUpdate(cat, c.peer, c.svc, c.snap)
    [] c.t = "list" -> HandleExportList(cat, c.peer, c.names, c.twin)
    [] c.t = "seed" -> Seed(cat, c.rows)
    [] OTHER        -> cat

(* ------------------------------------------------------------------------ *)
(* PROPERTY, importer side.  All predicates take the state before, the        *)
(* command, and the state after; none of them mentions HandleUpdate.          *)
(* ------------------------------------------------------------------------ *)
(* MirrorExact, split by what can go wrong *)
MirrorInstances(post, p, svc, snap) == Stored(post, p, svc) = SnapSvcRows(p, svc, snap)
MirrorNodes(post, p, snap) ==
  \A e \in snap : {n \in post.nodes : n.peer = p /\ n.node = e.node} = {[peer |-> p, node |-> e.node, addr |-> e.addr]}
MirrorSvcChecks(post, p, svc, snap) ==
  \A e \in snap : \A i \in e.insts :
     {c \in post.chks : c.peer = p /\ c.node = e.node /\ c.sid = i.id}
       = {[peer |-> p, node |-> e.node, cid |-> c.cid, sid |-> i.id, st |-> c.st] : c \in i.schk}
MirrorNodeChecks(post, p, snap) ==        \* every node check of the snapshot is there, with its status
  SnapNodeChk(p, snap) \subseteq post.chks
NoStaleNodeCheck(post, p, snap) ==        \* and no node check that the snapshot does not have
  \A c \in post.chks : (c.peer = p /\ c.sid = "" /\ c.node \in SnapNodes(snap)) => c \in SnapNodeChk(p, snap)
(* the two ways a stale node check can survive: a stored instance of svc on that node is also in *)
(* the snapshot ("carried": handleUpdateService compares that instance's checks) or none is     *)
StaleNodeChecks(post, p, snap) ==
  {c \in post.chks : c.peer = p /\ c.sid = "" /\ c.node \in SnapNodes(snap) /\ c \notin SnapNodeChk(p, snap)}
Carried(pre, p, svc, snap, n) ==
  \E s \in Stored(pre, p, svc) : s.node = n /\ \E t \in SnapSvcRows(p, svc, snap) : t.node = n /\ t.id = s.id
NoStaleCarried(pre, post, p, svc, snap) == \A c \in StaleNodeChecks(post, p, snap) : ~Carried(pre, p, svc, snap, c.node)
NoStaleNoCarrier(pre, post, p, svc, snap) == \A c \in StaleNodeChecks(post, p, snap) : Carried(pre, p, svc, snap, c.node)
MirrorExact(post, p, svc, snap) ==
  /\ MirrorInstances(post, p, svc, snap) /\ MirrorNodes(post, p, snap) /\ MirrorSvcChecks(post, p, svc, snap)
  /\ MirrorNodeChecks(post, p, snap) /\ NoStaleNodeCheck(post, p, snap)
  /\ CSN(post, p, svc) = SnapCSN(snap)       \* consequence: the read API returns the snapshot

(* entries no longer present are removed *)
NoOrphanChecks(post, p) ==
  \A c \in post.chks : (c.peer = p /\ c.sid # "") => \E s \in post.svcs : s.peer = p /\ s.node = c.node /\ s.id = c.sid
NodesExist(post, p) ==
  /\ \A s \in post.svcs : s.peer = p => \E n \in post.nodes : n.peer = p /\ n.node = s.node
  /\ \A c \in post.chks : c.peer = p => \E n \in post.nodes : n.peer = p /\ n.node = c.node
UnusedNodesGone(pre, post, p, svc, snap) ==
  \A n \in {s.node : s \in Stored(pre, p, svc)} \ SnapNodes(snap) :
     (~\E s \in post.svcs : s.peer = p /\ s.node = n)
        => /\ ~\E m \in post.nodes : m.peer = p /\ m.node = n
           /\ ~\E c \in post.chks : c.peer = p /\ c.node = n

(* NonInterference: data of the local cluster and of other peers is never modified *)
NIOtherPeers(pre, post, p) ==
  \A q \in {r.peer : r \in pre.nodes \cup post.nodes} \cup {r.peer : r \in pre.svcs \cup post.svcs}
           \cup {r.peer : r \in pre.chks \cup post.chks} :
     (q # p /\ q # Local) => PeerRows(pre, q) = PeerRows(post, q)
NILocal(pre, post, p) == p # Local => PeerRows(pre, Local) = PeerRows(post, Local)
(* rows outside the catalog: nothing that belongs to somebody else may change; of p's own   *)
(* rows only the virtual-IP allocation of an imported service may                            *)
RestMutable == {"service-virtual-ips"}
GatewayTables == {"gateway-services", "mesh-topology"}     \* derived tables of the LOCAL cluster's gateways
NIRestIn(pre, post, p, tbls) ==
  {r \in pre.rest : r.tbl \in tbls /\ ~(r.peer = p /\ r.tbl \in RestMutable)}
    = {r \in post.rest : r.tbl \in tbls /\ ~(r.peer = p /\ r.tbl \in RestMutable)}
NIRestGateway(pre, post, p) == NIRestIn(pre, post, p, GatewayTables)
NIRestOther(pre, post, p) == NIRestIn(pre, post, p, {r.tbl : r \in pre.rest \cup post.rest} \ GatewayTables)
NIRest(pre, post, p) == NIRestGateway(pre, post, p) /\ NIRestOther(pre, post, p)
(* same peer: every row that does not belong to svc, to a node of the snapshot or to a node *)
(* that svc just left is unchanged.  Touch* = the keys an update of (p, svc) may write.      *)
TouchNode(pre, p, svc, snap, r) == r.node \in SnapNodes(snap) \cup {s.node : s \in Stored(pre, p, svc)}
TouchSvc(p, svc, snap, r) == r.name = svc \/ \E t \in SnapSvcRows(p, svc, snap) : t.node = r.node /\ t.id = r.id
TouchChk(pre, p, svc, snap, r) ==
  \/ r.sid # "" /\ \E s \in Stored(pre, p, svc) \cup SnapSvcRows(p, svc, snap) : s.node = r.node /\ s.id = r.sid
  \/ r.sid = "" /\ r.node \in SnapNodes(snap) \cup {s.node : s \in Stored(pre, p, svc)}
  \/ \E d \in SnapChk(p, snap) : d.node = r.node /\ d.cid = r.cid
NISamePeer(pre, post, p, svc, snap) ==
  /\ {r \in pre.nodes : r.peer = p /\ ~TouchNode(pre, p, svc, snap, r)} = {r \in post.nodes : r.peer = p /\ ~TouchNode(pre, p, svc, snap, r)}
  /\ {r \in pre.svcs : r.peer = p /\ ~TouchSvc(p, svc, snap, r)} = {r \in post.svcs : r.peer = p /\ ~TouchSvc(p, svc, snap, r)}
  /\ {r \in pre.chks : r.peer = p /\ ~TouchChk(pre, p, svc, snap, r)} = {r \in post.chks : r.peer = p /\ ~TouchChk(pre, p, svc, snap, r)}
(* a node that svc left but that still carries another service keeps its row and node checks *)
SharedNodeKept(pre, post, p, svc, snap) ==
  \A n \in {s.node : s \in Stored(pre, p, svc)} \ SnapNodes(snap) :
     (\E s \in post.svcs : s.peer = p /\ s.node = n)
        => /\ {m \in pre.nodes : m.peer = p /\ m.node = n} = {m \in post.nodes : m.peer = p /\ m.node = n}
           /\ {c \in pre.chks : c.peer = p /\ c.node = n /\ c.sid = ""} = {c \in post.chks : c.peer = p /\ c.node = n /\ c.sid = ""}

(* exported list: services no longer exported disappear, the others are untouched *)
ListPrunes(post, p, names, twin) == ServicesOf(post, p) \subseteq Keep(names, twin)
ListKeeps(pre, post, p, names, twin) ==
  /\ {s \in pre.svcs : s.peer = p /\ s.name \in Keep(names, twin)} = {s \in post.svcs : s.peer = p}
  /\ \A s \in post.svcs : s.peer = p =>
        {c \in pre.chks : c.peer = p /\ c.node = s.node /\ (c.sid = "" \/ c.sid = s.id)}
          = {c \in post.chks : c.peer = p /\ c.node = s.node /\ (c.sid = "" \/ c.sid = s.id)}
ListNoEmptyNodes(pre, post, p) ==       \* nodes that lost their last service are removed
  \A n \in post.nodes : n.peer = p =>
     (\E s \in post.svcs : s.peer = p /\ s.node = n.node) \/ (~\E s \in pre.svcs : s.peer = p /\ s.node = n.node)

(* ------------------------------------------------------------------------ *)
(* EXPORTER.  cfg = the Services list of the exported-services config entry:  *)
(* a set of [name, peers] (name may be "*"); lsvcs = the local catalog's      *)
(* service names with their kind ("" = typical).                              *)
(* Exported == state.exportedServicesForPeerTxn (Services of the result).     *)
(* ------------------------------------------------------------------------ *)
Wildcard == "*"
ConsulService == "consul"
Exported(cfg, lsvcs, p) ==
  (    {e.name : e \in {x \in cfg : p \in x.peers /\ x.name # Wildcard}}
   \cup (IF \E e \in cfg : e.name = Wildcard /\ p \in e.peers
         THEN {s.name : s \in {x \in lsvcs : x.kind = ""}} ELSE {})) \ {ConsulService}

(* the property: offered only if some entry names p as a consumer of it *)
ExportOnlyIfConsumer(cfg, p, offered) ==
  \A s \in offered : \E e \in cfg : (e.name = s \/ e.name = Wildcard) /\ p \in e.peers
(* ------------------------------------------------------------------------ *)
(* END TO END.  An exporting cluster X (its exported-services entry cfg and  *)
(* its LOCAL catalog x, same three tables with peer = Local) streams to an    *)
(* importing cluster whose catalog is icat; X calls the importer k (consumer  *)
(* name in cfg), the importer calls X p (key of the imported rows).           *)
(*   XConfig  : ONE write replaces the whole Services list of the entry      *)
(*              (state.EnsureConfigEntry / DeleteConfigEntry)                 *)
(*   ApplyX   : Catalog.Register / Deregister of one instance in X            *)
(* subscriptionManager (subscription_manager.go): syncNormalServices keeps    *)
(* one watch per service of Exported(cfg, ..), handleEvent sends a service's  *)
(* instances with their checks FLATTENED into one check per instance whose    *)
(* status is the worst of node-level and own checks (flattenChecks), and the  *)
(* list of exported names; the importer applies them with HandleUpdate /      *)
(* HandleExportList.  After the stream has settled the importer must hold     *)
(* exactly what is exported NOW.                                              *)
(* ------------------------------------------------------------------------ *)
Score(st) == CASE st = "maintenance" -> 1 [] st = "critical" -> 2 [] st = "warning" -> 3 [] OTHER -> 4
Worst(S) == CHOOSE s \in S : \A t \in S : Score(s) <= Score(t)

XNodeRow(c) == [peer |-> Local, node |-> c.node, addr |-> c.addr]
ApplyX(x, c) ==
  CASE c.t = "xreg" ->
         [nodes |-> {n \in x.nodes : ~(n.peer = Local /\ n.node = c.node)} \cup {XNodeRow(c)},
          svcs  |-> {s \in x.svcs : ~(s.peer = Local /\ s.node = c.node /\ s.id = c.id)}
                    \cup {[peer |-> Local, node |-> c.node, id |-> c.id, name |-> c.name, ver |-> c.ver]},
          chks  |-> {k \in x.chks : ~(k.peer = Local /\ k.node = c.node /\ k.cid \in {c.cid, "nc"})}
                    \cup (IF c.st = "none" THEN {} ELSE {[peer |-> Local, node |-> c.node, cid |-> c.cid, sid |-> c.id, st |-> c.st]})
                    \cup (IF c.nst = "none" THEN {} ELSE {[peer |-> Local, node |-> c.node, cid |-> "nc", sid |-> "", st |-> c.nst]}),
          rest  |-> x.rest]
    [] c.t = "xdereg" ->
         [nodes |-> x.nodes,
          svcs  |-> {s \in x.svcs : ~(s.peer = Local /\ s.node = c.node /\ s.id = c.id)},
          chks  |-> {k \in x.chks : ~(k.peer = Local /\ k.node = c.node /\ k.sid = c.id)},
          rest  |-> x.rest]
    [] OTHER -> x
RECURSIVE ApplyXSeq(_, _)
ApplyXSeq(x, cs) == IF cs = <<>> THEN x ELSE ApplyXSeq(ApplyX(x, Head(cs)), Tail(cs))

XLocalSvcs(x) == {[name |-> s.name, kind |-> ""] : s \in {r \in x.svcs : r.peer = Local}}
ExpSet(cfg, x, k) == Exported(cfg, XLocalSvcs(x), k)

(* what X offers for one service: instances with node address and flattened health *)
XHealth(x, n, id) ==
  LET S == {c.st : c \in {d \in x.chks : d.peer = Local /\ d.node = n /\ (d.sid = "" \/ d.sid = id)}}
  IN IF S = {} THEN "none" ELSE Worst(S)
Offer(x, svc) ==
  {[node |-> s.node, id |-> s.id, ver |-> s.ver,
    addr |-> {n.addr : n \in {m \in x.nodes : m.peer = Local /\ m.node = s.node}},
    health |-> XHealth(x, s.node, s.id)] : s \in {r \in x.svcs : r.peer = Local /\ r.name = svc}}
(* what the importer holds for it *)
Imported(icat, p, svc) ==
  {[node |-> s.node, id |-> s.id, ver |-> s.ver,
    addr |-> {n.addr : n \in {m \in icat.nodes : m.peer = p /\ m.node = s.node}},
    health |-> LET C == {d \in icat.chks : d.peer = p /\ d.node = s.node /\ d.sid = s.id}
               IN IF C = {} THEN "none" ELSE IF Cardinality(C) = 1 THEN (CHOOSE d \in C : TRUE).st ELSE "many"]
     : s \in Stored(icat, p, svc)}

(* THE PROPERTY, end to end (state predicates on a settled state) *)
E2EOnlyExported(cfg, x, icat, p, k) == ServicesOf(icat, p) \subseteq ExpSet(cfg, x, k)
E2EMirror(cfg, x, icat, p, k) == \A svc \in ExpSet(cfg, x, k) : Imported(icat, p, svc) = Offer(x, svc)
E2ENodes(cfg, x, icat, p, k) ==
  {n \in icat.nodes : n.peer = p}
    = {[peer |-> p, node |-> n.node, addr |-> n.addr] :
         n \in {m \in x.nodes : m.peer = Local /\ \E s \in x.svcs : s.peer = Local /\ s.node = m.node /\ s.name \in ExpSet(cfg, x, k)}}
E2EChecks(icat, p) == NoOrphanChecks(icat, p) /\ \A c \in icat.chks : c.peer = p => c.sid # ""

(* constructive: the settled importer = every exported service reconciled, then the list *)
OfferSnap(x, svc, flat) ==
  {[node |-> n, addr |-> (CHOOSE m \in x.nodes : m.peer = Local /\ m.node = n).addr, nchk |-> {},
    insts |-> {[id |-> s.id, ver |-> s.ver,
                schk |-> IF XHealth(x, n, s.id) = "none" THEN {} ELSE {[cid |-> flat[s.id], st |-> XHealth(x, n, s.id)]}]
                 : s \in {r \in x.svcs : r.peer = Local /\ r.name = svc /\ r.node = n}}]
     : n \in {r.node : r \in {q \in x.svcs : q.peer = Local /\ q.name = svc}}}
RECURSIVE SyncAll(_, _, _, _, _)
SyncAll(icat, p, todo, x, flat) ==
  IF todo = {} THEN icat
  ELSE LET s == CHOOSE t \in todo : TRUE IN SyncAll(HandleUpdate(icat, p, s, OfferSnap(x, s, flat)), p, todo \ {s}, x, flat)
Sync(cfg, x, icat, p, k, flat, twin) ==
  HandleExportList(SyncAll(icat, p, ExpSet(cfg, x, k), x, flat), p, ExpSet(cfg, x, k), twin)
=============================================================================
