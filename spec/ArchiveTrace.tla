---------------------------- MODULE ArchiveTrace ----------------------------
(* Trace validation for C20.  trace.ndjson holds one event per (scenario,     *)
(* base archive) recorded by h-snap from the REAL snapshot code:              *)
(*   scn.wrap, scn.faults   the fault list (Archive!Fault records)            *)
(*   base.empty             the state payload of the fresh archive was empty  *)
(*   base.sums_first        member listed first in its SHA256SUMS (map order) *)
(*   api.<entry point>      how many of the n byte-level instances of the     *)
(*                          scenario were rejected / accepted with the same    *)
(*                          state+metadata / accepted with different ones, for *)
(*                          verifread (archive.go read), verify, read, restore *)
(*   restore                what the recording FSM behind snapshot.Restore saw *)
(* The required class is recomputed here from the fault list with the spec's  *)
(* own operators (ApplyAll, Class, Reasons); the harness' numbers are judged. *)
(* A failed predicate is printed as <<"REJECT", line, {names}>>; the event is  *)
(* still consumed.  <<"CLASS", line, class>> is printed for every event.      *)
EXTENDS Archive, TLC, Json

Trace == ndJsonDeserialize("trace.ndjson")
VARIABLE l

F(name, ok) == IF ok THEN {} ELSE {name}

Verdict(i) ==
  LET e   == Trace[i]
      a0  == ValidF(e.scn.wrap, e.base.empty, e.base.sums_first)
      fs  == e.scn.faults
  IN IF ~Applicable(a0, fs) THEN [cls |-> "drift", bad |-> {"drift"}]
     ELSE
       LET a   == ApplyAll(a0, fs)
           cls == Class(a)
           perApi == UNION {
              LET c == e.api[p] IN
                 F("NeverDifferent@" \o p, c.different = 0)                                   \* Accepted => extracted state = original /\ metadata equal
              \cup F("MustReject@" \o p, cls = "MustReject" => c.same = 0 /\ c.different = 0)
              \cup F("MustAcceptSame@" \o p, cls = "MustAcceptSame" => c.rejected = 0)
              \cup F("Instances@" \o p, c.rejected + c.same + c.different = e.n)
              : p \in DOMAIN e.api}
           rest ==
                 \* NotHandedToRestore: the Raft restore (FSM.Restore) is reached only after an accepting read
                 F("NotHandedToRestore", e.restore.fsm_after_reject = 0 /\ (cls = "MustReject" => e.restore.fsm_calls = 0))
              \cup F("RestoreHandsOriginal", e.restore.fsm_diff = 0 /\ e.restore.fsm_calls = e.restore.accepted)
           bad == perApi \cup rest
       IN [cls |-> cls,
           bad |-> bad \cup (IF \E x \in bad : x \notin {"RestoreHandsOriginal"} /\ cls = "MustReject"
                             THEN {"why:" \o r : r \in Reasons(a)} ELSE {})]

Init == l = 1
Next == /\ l <= Len(Trace)
        /\ LET v == Verdict(l) IN
             /\ PrintT(<<"CLASS", l, v.cls>>)
             /\ IF v.bad = {} THEN TRUE ELSE PrintT(<<"REJECT", l, v.bad>>)
        /\ l' = l + 1
Spec == Init /\ [][Next]_l
=============================================================================
