------------------------------ MODULE Catalog ------------------------------
(***************************************************************************)
(* Property C07: catalog integrity.  The state is the PROJECTED catalog of  *)
(* the real state store: base tables (nodes, service instances, checks,     *)
(* coordinates, gateway config entries) and the tables the code maintains   *)
(* incrementally (kind-service-names, gateway-services, mesh-topology,      *)
(* usage counters, virtual IPs).  Every derived view is DEFINED here by      *)
(* recomputation from the base tables; the invariants say that the           *)
(* implementation's incrementally maintained tables agree with it.           *)
(* Evaluated by TLC on every recorded implementation state (CatalogTrace).   *)
(***************************************************************************)
EXTENDS Integers, Sequences, FiniteSets, SequencesExt, TLC

Local(S) == {x \in S : x.peer = ""}

(* no orphans *)
NoOrphanService(c) == \A s \in c.svcs : \E n \in c.nodes : n.name = s.node /\ n.peer = s.peer
NoOrphanCheck(c) ==
  \A k \in c.chks : /\ \E n \in c.nodes : n.name = k.node /\ n.peer = k.peer
                    /\ (k.svc # "" => \E s \in c.svcs : s.node = k.node /\ s.peer = k.peer /\ s.id = k.svc)
NoOrphanCoordinate(c) == \A x \in c.coords : \E n \in Local(c.nodes) : n.name = x.node

(* kind-service-names = the (kind, name) pairs of local instances, plus connect-enabled names *)
KindOf(s) == s.kind     \* a typical service is stored with the empty kind
ConnectEnabledNames(c) ==
  {s.dest : s \in {s \in Local(c.svcs) : s.kind = "connect-proxy" /\ s.dest # ""}} \cup {s.name : s \in {s \in Local(c.svcs) : s.native}}
KindNamesComplete(c) ==
  \A s \in Local(c.svcs) : \E k \in c.kinds : k.name = s.name /\ k.kind = KindOf(s)
\* a name with a service-defaults entry that carries a Destination (a destination outside the mesh, c.sdest) is listed
\* under the kind "destination" for exactly as long as that entry exists
KindNamesSound(c) ==
  \A k \in c.kinds : IF k.kind = "connect-enabled" THEN k.name \in ConnectEnabledNames(c)
                     ELSE IF k.kind = "destination" THEN k.name \in c.sdest
                     ELSE \E s \in Local(c.svcs) : s.name = k.name /\ KindOf(s) = k.kind
DestinationNamesComplete(c) == \A n \in c.sdest : \E k \in c.kinds : k.kind = "destination" /\ k.name = n
ConnectEnabledComplete(c) == \A n \in ConnectEnabledNames(c) : \E k \in c.kinds : k.kind = "connect-enabled" /\ k.name = n

(* gateway-services: every row is justified by the gateway's config entry; every exact link has its row *)
Entries(c) == {[gw |-> e.gw, svcs |-> ToSet(e.svcs), kind |-> "terminating-gateway"] : e \in c.tgw}
         \cup {[gw |-> e.gw, svcs |-> ToSet(e.svcs), kind |-> "ingress-gateway"] : e \in c.igw}
GatewayRowsJustified(c) ==
  \A r \in c.gws : \E e \in Entries(c) : e.gw = r.gw /\ (IF r.wild THEN "*" \in e.svcs ELSE r.svc \in e.svcs)
GatewayExactLinksPresent(c) ==
  \A e \in Entries(c) : \A n \in e.svcs \ {"*"} : \E r \in c.gws : r.gw = e.gw /\ r.svc = n
\* a wildcard row names a service that exists in the catalog (typical instance or connect-enabled name)
WildcardRowsLive(c) ==
  \A r \in {r \in c.gws : r.wild} :
     \/ \E s \in Local(c.svcs) : s.name = r.svc
     \/ r.svc \in ConnectEnabledNames(c)
     \/ r.svc \in c.sdest

(* mesh-topology: every reference points at a registered instance *)
TopologyRefsLive(c) ==
  \A t \in c.topo : \A r \in ToSet(t.refs) : \E s \in c.svcs : r = s.node \o "/" \o s.id

\* ... and the rows are EXACT for sidecar proxies (updateMeshTopology / cleanupMeshTopology): a row (upstream, downstream)
\* references exactly the proxy instances of that downstream service that declare the upstream.  Complete: every declared
\* upstream of a local proxy instance is referenced.  Justified: a reference to an existing instance is to a proxy of the
\* row's downstream that declares the row's upstream (a reference to a vanished instance is TopologyRefsLive's business;
\* rows of ingress gateways carry no references).  Upstreams of type prepared_query are not part of the topology.
Uid(s) == s.node \o "/" \o s.id
DeclaredUps(s) == {u.name : u \in {u \in s.ups : ~u.pq}}
TopologyRefsComplete(c) ==
  \A s \in {s \in Local(c.svcs) : s.kind = "connect-proxy"} : \A u \in DeclaredUps(s) :
     \E t \in c.topo : t.up = u /\ t.down = s.dest /\ Uid(s) \in ToSet(t.refs)
TopologyRefsJustified(c) ==
  \A t \in c.topo : \A r \in ToSet(t.refs) :
     (\E s \in c.svcs : Uid(s) = r) =>
        \E s \in c.svcs : Uid(s) = r /\ s.kind = "connect-proxy" /\ s.dest = t.down /\ t.up \in DeclaredUps(s)

(* usage counters *)
U(c, k) == IF k \in DOMAIN c.usage THEN c.usage[k] ELSE 0
Kinds(c) == {s.kind : s \in Local(c.svcs)} \cup {"connect-proxy", "mesh-gateway", "terminating-gateway", "ingress-gateway", "api-gateway"}
UsageAgrees(c) ==
  /\ U(c, "nodes") = Cardinality(Local(c.nodes))
  /\ U(c, "services") = Cardinality(Local(c.svcs))
  /\ U(c, "service-names") = Cardinality({s.name : s \in Local(c.svcs)})
  /\ U(c, "kvs") = c.nkv
  \* connect instances per kind, connect-native instances, billable instances, config entries per kind (usage.go)
  /\ \A k \in Kinds(c) \ {""} : U(c, "connect-mesh-" \o k) = Cardinality({s \in Local(c.svcs) : s.kind = k})
  /\ U(c, "connect-mesh-connect-native") = Cardinality({s \in Local(c.svcs) : s.native})
  /\ U(c, "billable-services") = Cardinality({s \in Local(c.svcs) : s.kind = "" /\ s.name # "consul"})
  /\ \A k \in {e.kind : e \in c.ces} : U(c, "config-entries-" \o k) = Cardinality({e \in c.ces : e.kind = k})

(* virtual IPs *)
VipInjective(c) == \A a, b \in c.vips : a.ip = b.ip => a = b
VipPoolDisjoint(c) == \A a \in c.vips : a.ip \notin ToSet(c.free)
\* a virtual IP advertised by an instance (its own "consul-virtual" address - of the destination service for a
\* sidecar proxy - or a terminating gateway's "consul-virtual:<service>" address) is that service's current assignment
AdvertisedName(s, a) == IF a.svc # "" THEN a.svc ELSE IF s.kind = "connect-proxy" THEN s.dest ELSE s.name
Assigned(c, s, a) == \E v \in c.vips : v.name = AdvertisedName(s, a) /\ v.peer = s.peer /\ v.tail = a.ip
\* split by who advertises, so that a verdict names the path: a sidecar proxy (the destination's address), a
\* connect-native instance (its own), a terminating gateway (one address per linked service)
AdvertisedVipCurrentProxy(c) == \A s \in c.svcs : \A a \in ToSet(s.adv) : (a.svc = "" /\ s.kind = "connect-proxy" /\ s.peer = "") => Assigned(c, s, a)
\* the same for a sidecar proxy IMPORTED from a peer (the assignment of an imported service is released with the last
\* instance of the service itself: the list of peered upstreams is derived from the assignments)
AdvertisedVipCurrentProxyImported(c) == \A s \in c.svcs : \A a \in ToSet(s.adv) : (a.svc = "" /\ s.kind = "connect-proxy" /\ s.peer # "") => Assigned(c, s, a)
AdvertisedVipCurrentOwn(c) == \A s \in c.svcs : \A a \in ToSet(s.adv) : (a.svc = "" /\ s.kind # "connect-proxy") => Assigned(c, s, a)
\* a gateway's per-service address: while the gateway's config entry links the service ...
Linked(c, s, a) == \E e \in c.tgw : e.gw = s.name /\ (a.svc \in ToSet(e.svcs) \/ "*" \in ToSet(e.svcs))
AdvertisedVipCurrentGateway(c) == \A s \in c.svcs : \A a \in ToSet(s.adv) : (a.svc # "" /\ Linked(c, s, a)) => Assigned(c, s, a)
\* ... and after the link is gone (the entry was deleted: an update that drops a service strips the address itself)
AdvertisedVipStaleGatewayLink(c) == \A s \in c.svcs : \A a \in ToSet(s.adv) : (a.svc # "" /\ ~Linked(c, s, a)) => Assigned(c, s, a)
AdvertisedVipCurrent(c) == AdvertisedVipCurrentProxy(c) /\ AdvertisedVipCurrentProxyImported(c) /\ AdvertisedVipCurrentOwn(c) /\ AdvertisedVipCurrentGateway(c) /\ AdvertisedVipStaleGatewayLink(c)

(* step property: deregistering a node / service leaves nothing of it behind *)
CascadeComplete(pre, post) ==
  /\ \A n \in pre.nodes : ~(\E m \in post.nodes : m.name = n.name /\ m.peer = n.peer) =>
        /\ ~\E s \in post.svcs : s.node = n.name /\ s.peer = n.peer
        /\ ~\E k \in post.chks : k.node = n.name /\ k.peer = n.peer
        /\ (n.peer = "" => ~\E x \in post.coords : x.node = n.name)
  /\ \A s \in pre.svcs : ~(\E t \in post.svcs : t.node = s.node /\ t.peer = s.peer /\ t.id = s.id) =>
        ~\E k \in post.chks : k.node = s.node /\ k.peer = s.peer /\ k.svc = s.id
=============================================================================
