--------------------------- MODULE ResourceStore ---------------------------
(***************************************************************************)
(* C18 - the resource storage backend (internal/storage) as a SEQUENTIAL    *)
(* specification:  Apply(st, cmd, nv) = [st |-> st', res |-> result].        *)
(*                                                                           *)
(* Functional style (DESIGN.md 2.1): the exhaustive model ResourceStoreMC    *)
(* and the linearizability / watch checker ResourceStoreTrace call the same  *)
(* operators.  The real code is concurrent; it conforms iff every recorded   *)
(* concurrent history has a linearization accepted by this specification.    *)
(*                                                                           *)
(* A key    k = [p, n, name]  partition, namespace, name (name = sequence    *)
(*            of small ints so that prefixes can be tested).                 *)
(* A stored resource  r = [uid, ver, d, own]   own = <<>> or <<[k, uid]>>.   *)
(* A slot   = <<>> (absent) or <<r>>.   Full(k, r) = the resource as callers *)
(* see it:  [k, uid, ver, d, own].                                           *)
(* st.res : [Keys -> slot]                                                   *)
(* st.log : [Keys -> Seq(entry)]  per-resource commit log ("evlog" of        *)
(*          DESIGN.md C18, kept per resource: the property orders events per *)
(*          resource, and commuting writes to different resources then lead  *)
(*          to the same state).  entry = [kind, r, post, pv]:                *)
(*            kind "upsert"  r = <<new>>      post = <<new>>                 *)
(*            kind "delete"  r = <<deleted>>  post = <<>>                    *)
(*            kind "restore" r = <<>>         post = slot after the restore  *)
(*          pv = the version the writer presented.                           *)
(* st.ep  : number of restores so far (epoch).                               *)
(***************************************************************************)
EXTENDS Integers, Sequences, FiniteSets, TLC

Strip(f) == [uid |-> f.uid, ver |-> f.ver, d |-> f.d, own |-> f.own]
Full(k, r) == [k |-> k, uid |-> r.uid, ver |-> r.ver, d |-> r.d, own |-> r.own]

Keys(st) == DOMAIN st.res
InitState(K) == [res |-> [k \in K |-> <<>>], log |-> [k \in K |-> <<>>], ep |-> 0]

Present(st, k) == st.res[k] # <<>>
Cur(st, k) == st.res[k][1]

IsPre(p, s) == Len(p) <= Len(s) /\ SubSeq(s, 1, Len(p)) = p
\* inmem/schema.go query.matches + query.indexPrefix : tenancy wildcard "*", name prefix
Matches(q, k) == /\ (q.p = "*" \/ q.p = k.p)
                 /\ (q.n = "*" \/ q.n = k.n)
                 /\ IsPre(q.pre, k.name)

Ok(rs) == [t |-> "ok", errs |-> {}, rs |-> rs]
Fail(es) == [t |-> "err", errs |-> es, rs |-> {}]
\* a result no implementation answer conforms to (e.g. the version handed out is not fresh)
Never == [t |-> "never", errs |-> {}, rs |-> {}]

VersionsOf(st, k) == {st.log[k][i].r[1].ver : i \in {j \in DOMAIN st.log[k] : st.log[k][j].kind = "upsert"}}
                     \cup (IF Present(st, k) THEN {Cur(st, k).ver} ELSE {})

Append1(st, k, e) == [st EXCEPT !.log[k] = Append(@, e)]

---------------------------------------------------------------------------
(* inmem/store.go  Store.WriteCAS  + inmem/backend.go / raft/backend.go   *)
(* Apply (version assignment).  nv = the version the backend hands out.      *)
(* ok iff (absent /\ pv = "") \/ (same uid /\ stored version = pv);          *)
(* absent /\ pv # ""  -> CASFailure ; other uid -> WrongUid ; else CASFailure.*)
(* Where both the uid and the version differ the statement does not say      *)
(* which error wins: either class is accepted.                               *)
WriteCAS(st, c, nv) ==
  LET new == [uid |-> c.uid, ver |-> nv, d |-> c.d, own |-> c.own]
      commit == [st |-> Append1([st EXCEPT !.res[c.k] = <<new>>], c.k,
                                [kind |-> "upsert", r |-> <<new>>, post |-> <<new>>, pv |-> c.pv]),
                 res |-> IF nv = "" \/ nv \in VersionsOf(st, c.k) THEN Never ELSE Ok({Full(c.k, new)})]
  IN
  IF ~Present(st, c.k) THEN
       IF c.pv = "" THEN commit ELSE [st |-> st, res |-> Fail({"cas"})]
  ELSE IF Cur(st, c.k).uid # c.uid THEN
       [st |-> st, res |-> Fail(IF Cur(st, c.k).ver # c.pv THEN {"uid", "cas"} ELSE {"uid"})]
  ELSE IF Cur(st, c.k).ver # c.pv THEN [st |-> st, res |-> Fail({"cas"})]
  ELSE commit

(* inmem/store.go Store.DeleteCAS : no-op when absent or when the uid is   *)
(* another lifetime's; CASFailure on version mismatch; else delete.          *)
DeleteCAS(st, c) ==
  IF ~Present(st, c.k) THEN [st |-> st, res |-> Ok({})]
  ELSE IF Cur(st, c.k).uid # c.uid THEN [st |-> st, res |-> Ok({})]
  ELSE IF Cur(st, c.k).ver # c.pv THEN [st |-> st, res |-> Fail({"cas"})]
  ELSE [st |-> Append1([st EXCEPT !.res[c.k] = <<>>], c.k,
                       [kind |-> "delete", r |-> st.res[c.k], post |-> <<>>, pv |-> c.pv]),
        res |-> Ok({})]

(* Store.Read : uid "" = whatever is stored under the name; otherwise only *)
(* that lifetime.                                                            *)
Read(st, c) ==
  IF ~Present(st, c.k) \/ (c.uid # "" /\ Cur(st, c.k).uid # c.uid)
  THEN [st |-> st, res |-> Fail({"notfound"})]
  ELSE [st |-> st, res |-> Ok({Full(c.k, Cur(st, c.k))})]

(* Store.List / listTxn *)
ListOf(st, q) == {Full(k, Cur(st, k)) : k \in {x \in Keys(st) : Present(st, x) /\ Matches(q, x)}}
(* Store.ListByOwner : owner index includes the owner's uid *)
OwnedBy(st, k, uid) == {Full(x, Cur(st, x)) : x \in {y \in Keys(st) : Present(st, y) /\ Cur(st, y).own = <<[k |-> k, uid |-> uid]>>}}
(* Store.Snapshot *)
AllOf(st) == {Full(k, Cur(st, k)) : k \in {x \in Keys(st) : Present(st, x)}}

(* Store.Restore / Restoration.Commit : the database is replaced wholesale *)
Restore(st, rs) ==
  LET slot(k) == IF \E f \in rs : f.k = k THEN <<Strip(CHOOSE f \in rs : f.k = k)>> ELSE <<>>
  IN [st |-> [res |-> [k \in Keys(st) |-> slot(k)],
              log |-> [k \in Keys(st) |-> Append(st.log[k], [kind |-> "restore", r |-> <<>>, post |-> slot(k), pv |-> ""])],
              ep  |-> st.ep + 1],
      res |-> Ok({})]

Apply(st, c, nv) ==
  CASE c.t = "write"     -> WriteCAS(st, c, nv)
    [] c.t = "delete"    -> DeleteCAS(st, c)
    [] c.t = "read"      -> Read(st, c)
    [] c.t = "list"      -> [st |-> st, res |-> Ok(ListOf(st, c.q))]
    [] c.t = "listowner" -> [st |-> st, res |-> Ok(OwnedBy(st, c.k, c.uid))]
    [] c.t = "snapshot"  -> [st |-> st, res |-> Ok(AllOf(st))]
    [] c.t = "restore"   -> Restore(st, c.rs)
    \* Store.Restore() + Restoration.Apply: builds the new database aside; nothing observable changes.
    \* (Restoration.Commit is the "restore" step above: it discards everything after the snapshot,
    \* including writes acknowledged since Store.Restore())
    [] c.t = "rbegin"    -> [st |-> st, res |-> Ok({})]

---------------------------------------------------------------------------
(* Watches: inmem/watch.go, store.go watchSnapshot.  A watch is a complete    *)
(* listing of the matching resources at SOME position of the logs (the       *)
(* snapshot may be served from the publisher's cache, hence "some") followed *)
(* by, per resource, the log entries after that position, in order, none     *)
(* skipped, none repeated.  It never crosses a restore entry (the watch is   *)
(* closed by a restore).                                                     *)
WatchTake(st, q) == [q |-> q, cur |-> [k \in Keys(st) |-> IF Matches(q, k) THEN Len(st.log[k]) ELSE 0], ep |-> st.ep]

HasNext(st, w, k) == /\ Matches(w.q, k) /\ w.cur[k] < Len(st.log[k])
                     /\ st.log[k][w.cur[k] + 1].kind # "restore"
NextEntry(st, w, k) == st.log[k][w.cur[k] + 1]
\* the event a watcher receives for entry e of resource k
EventOf(k, e) == [kind |-> e.kind, r |-> Full(k, e.r[1])]
Advance(w, k) == [w EXCEPT !.cur[k] = @ + 1]

PostAt(st, k, j) == IF j = 0 THEN <<>> ELSE st.log[k][j].post
\* ReadAfterEventMonotone: what a Read of k may return to a watcher whose last event /
\* listing for k is at position w.cur[k]: the state of k at that or a later position
NotOlder(st, w, k, slot) == \E j \in w.cur[k]..Len(st.log[k]) : PostAt(st, k, j) = slot
\* all events delivered
CaughtUp(st, w) == \A k \in Keys(st) : Matches(w.q, k) => w.cur[k] = Len(st.log[k])

---------------------------------------------------------------------------
(* The property, as predicates over the per-resource logs *)

\* lifetime of entry i of resource k = position of the create / restore that began it
LifeOf(lg, i) ==
  LET starts == {j \in 1..i : lg[j].kind = "restore" \/ (lg[j].kind = "upsert" /\ (j = 1 \/ lg[j - 1].post = <<>>))}
  IN IF starts = {} THEN 0 ELSE CHOOSE j \in starts : \A x \in starts : x <= j

\* of the writes (and deletes) presenting version v on one lifetime at most one succeeds
OneWinnerPerVersion(st) ==
  \A k \in Keys(st) : \A i, j \in DOMAIN st.log[k] :
     ~ /\ i < j /\ st.log[k][i].kind # "restore" /\ st.log[k][j].kind # "restore"
       /\ st.log[k][i].pv = st.log[k][j].pv
       /\ LifeOf(st.log[k], i) = LifeOf(st.log[k], j)

\* the uid never changes between versions of one lifetime
UidStablePerLifetime(st) ==
  \A k \in Keys(st) : \A i \in DOMAIN st.log[k] :
     (i > 1 /\ st.log[k][i].kind = "upsert" /\ st.log[k][i - 1].post # <<>>)
     => st.log[k][i].r[1].uid = st.log[k][i - 1].post[1].uid

\* versions handed out for one name are pairwise different (otherwise CAS is meaningless)
VersionsFresh(st) ==
  \A k \in Keys(st) : \A i, j \in DOMAIN st.log[k] :
     (i < j /\ st.log[k][i].kind = "upsert" /\ st.log[k][j].kind = "upsert") => st.log[k][i].r[1].ver # st.log[k][j].r[1].ver

LogAgrees(st) == \A k \in Keys(st) : st.res[k] = PostAt(st, k, Len(st.log[k]))

\* step property: only a writer/deleter presenting exactly the stored (uid, version) of the
\* CURRENT lifetime (or creating an absent name with version "") changes a resource
StaleCannotTouch(pre, c, post) ==
  \A k \in Keys(pre) : pre.res[k] # post.res[k] =>
     \/ c.t = "restore"
     \/ /\ c.t \in {"write", "delete"} /\ c.k = k
        /\ IF Present(pre, k) THEN c.uid = Cur(pre, k).uid /\ c.pv = Cur(pre, k).ver
           ELSE c.t = "write" /\ c.pv = ""
=============================================================================
