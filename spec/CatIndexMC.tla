---------------------------- MODULE CatIndexMC ----------------------------
(* Bounded instance of CatIndex: exhaustive check of the index rules (CatIndex_mc.cfg), the design-level *)
(* counterpart of a recorded finding (CatIndex_moved.cfg: a check id re-registered under another service *)
(* - expected to FAIL) and behaviour generation for the replay into the real state store (CatIndex_gen.cfg). *)
EXTENDS CatIndex, Json

CONSTANTS MaxDepth, AllowMoved, Small   \* Small: the reduced alphabet of the quick tier

VARIABLES c, n, hist

NodeNames == {"n1", "n2"}
SvcOpts == {[has |-> FALSE, sid |-> "", sname |-> "", port |-> 0]}
      \cup {[has |-> TRUE, sid |-> "s1", sname |-> nm, port |-> p] : nm \in {"web", "api"}, p \in IF Small THEN {1} ELSE {1, 2}}
      \cup (IF Small THEN {[has |-> TRUE, sid |-> "s1", sname |-> "web", port |-> 2]} ELSE {})
      \cup {[has |-> TRUE, sid |-> "s2", sname |-> "web", port |-> 1]}
ChkOpts == {[has |-> FALSE, cid |-> "", csvc |-> "", cstatus |-> "", cout |-> ""]}
      \cup {[has |-> TRUE, cid |-> "c1", csvc |-> sv, cstatus |-> stt, cout |-> o] : sv \in {"", "s1"}, stt \in {"passing", "critical"}, o \in {"", "x"}}
      \cup {[has |-> TRUE, cid |-> "c2", csvc |-> "", cstatus |-> "passing", cout |-> ""]}
NodeOpts == {[node |-> "n1", addr |-> "a1"], [node |-> "n1", addr |-> "a2"], [node |-> "n2", addr |-> "a1"]}

Reg(no, so, ko) == [t |-> "creg", node |-> no.node, addr |-> no.addr, hassvc |-> so.has, sid |-> so.sid, sname |-> so.sname, port |-> so.port,
                    haschk |-> ko.has, cid |-> ko.cid, csvc |-> ko.csvc, cstatus |-> ko.cstatus, cout |-> ko.cout]
Dereg(nd, sid, cid) == [t |-> "cdereg", node |-> nd, sid |-> sid, cid |-> cid]

\* the situation of the recorded finding: the check id exists on the node under another service
Moves(s, m) == m.t = "creg" /\ m.haschk /\ ChkHas(s, m.node, m.cid) /\ ChkGet(s, m.node, m.cid).svc # m.csvc

Cmds(s) == {m \in {Reg(no, so, ko) : no \in NodeOpts, so \in SvcOpts, ko \in ChkOpts} :
               /\ AllowMoved \/ ~Moves(s, m)
               /\ ~Small \/ ~(m.cout = "x" /\ m.cstatus = "critical")}
      \cup {Dereg(nd, "", "") : nd \in NodeNames}
      \cup {Dereg(nd, sid, "") : nd \in NodeNames, sid \in {"s1", "s2"}}
      \cup {Dereg(nd, "", cid) : nd \in NodeNames, cid \in {"c1", "c2"}}

Queries == {[q |-> "nodes"], [q |-> "services"]}
      \cup {[q |-> k, name |-> nm] : k \in {"service-nodes", "health", "service-checks"}, nm \in {"web", "api"}}
      \cup {[q |-> k, node |-> nd] : k \in {"node-services", "node-checks"}, nd \in NodeNames}
      \cup {[q |-> "checks-in-state", status |-> stt] : stt \in {"any", "passing", "critical"}}

\* raft indexes start above 1: index 1 is indistinguishable from "no index" after normalisation (a real cluster's first
\* catalog write is never at index 1 either - the bootstrap configuration entry precedes it)
Base == 10
Init == c = Init0 /\ n = 0 /\ hist = <<>>
Next == /\ n < MaxDepth
        /\ \E m \in Cmds(c) :
             LET r == Apply(c, Base + n + 1, m) IN
             /\ c' = r.st
             /\ n' = n + 1
             /\ hist' = Append(hist, m @@ [idx |-> Base + n + 1])
Spec == Init /\ [][Next]_<<c, n, hist>>

View == <<c, n>>
Emit == PrintT(<<"TRACE", ToJson(hist')>>)
EmitProp == [][Emit]_<<c, n, hist>>

PropNoMissedChange == [][\A q \in Queries : NoMissedChange(c, c', q)]_<<c, n>>
PropMonotone == [][\A q \in Queries : Monotone(c, c', q)]_<<c, n>>
InvRowsLive == RowsLive(c)
InvCopiesCurrent == CopiesCurrent(c)
=============================================================================
