SPECIFICATION Spec
CONSTANTS
  Part = "both"
  MaxSmall = 5
  MaxMid = 4
  MaxBig = 3
  MaxGroups = 3
  MaxOps = 5
INVARIANTS InvRefConforms InvFlagIgnoresPrior InvPredicatesBite InvLoopsRefine InvExportedFlag InvExpired InvValid InvMask
CHECK_DEADLOCK FALSE
