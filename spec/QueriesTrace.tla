---------------------------- MODULE QueriesTrace ----------------------------
(* C06 on recorded observations of the REAL state store.  Around every applied command the        *)
(* harness evaluates the whole read battery before and after, each read with its own memdb        *)
(* WatchSet registered before the write.  obs lists the reads whose index or result changed or     *)
(* whose WatchSet fired: [q, i0, r0, i1, r1, fired] (r = digest of the canonical result).          *)
(* Norm transcribes the blocking-query layer: an index below 1 is reported as 1                    *)
(* (agent/blockingquery: "if meta.GetIndex() < 1 { meta.SetIndex(1) }").                           *)
EXTENDS Integers, Sequences, FiniteSets, SequencesExt, TLC, Json
Trace == ndJsonDeserialize("trace.ndjson")
VARIABLE l
Norm(i) == IF i < 1 THEN 1 ELSE i
Fam(o) == o.fam
Bad(e, o) ==
     (IF o.r0 # o.r1 /\ ~(Norm(o.i1) > Norm(o.i0)) THEN {<<"missed-change", Fam(o)>>} ELSE {})
  \cup (IF o.r0 # o.r1 /\ ~o.fired THEN {<<"not-woken", Fam(o)>>} ELSE {})
  \cup (IF ~e.reap /\ Norm(o.i1) < Norm(o.i0) THEN {<<"index-decreased", Fam(o)>>} ELSE {})
Verdict(i) == LET e == Trace[i] IN UNION {Bad(e, e.obs[j]) : j \in DOMAIN e.obs}
TInit == l = 1
TNext == /\ l <= Len(Trace)
         /\ LET v == Verdict(l) IN IF v = {} THEN TRUE ELSE PrintT(<<"REJECT", l, {x[1] \o ":" \o x[2] : x \in v}>>)
         /\ l' = l + 1
TSpec == TInit /\ [][TNext]_l
=============================================================================
