----------------------------- MODULE DiscoChain -----------------------------
(***************************************************************************)
(* C15 - discovery-chain compilation is closed, terminating and            *)
(* deterministic; the write-time validation of config entries agrees with  *)
(* the compiler.                                                           *)
(*                                                                         *)
(* Reference semantics of  agent/consul/discoverychain.Compile  as a        *)
(* FUNCTION  Chain(E, s, ctx)  of a set E of config entries, a service s    *)
(* and an evaluation context ctx = [dc, op] (EvaluateInDatacenter,          *)
(* OverrideProtocol).  It is defined by well-founded recursion (redirects   *)
(* carry a visited set, splitter reachability is a fix-point), NOT by      *)
(* memoised mutation as in the code, so termination and determinism hold by *)
(* construction and the code is compared against it.                       *)
(*                                                                         *)
(* Entries are uniform records                                              *)
(*   [kind, name, protocol, routes, legs, subsets, defsub, redirect,        *)
(*    failover, wp]                                                         *)
(*   kind     "defaults" | "proxy" | "router" | "splitter" | "resolver"     *)
(*   protocol service-defaults.Protocol / proxy-defaults Config.protocol    *)
(*   routes   seq of [svc, sub, dc]  ServiceRoute.Destination (svc "" =     *)
(*            the router's own service) ; legs likewise for ServiceSplit    *)
(*   subsets  seq of subset names ; defsub = DefaultSubset                  *)
(*   redirect [svc, sub, dc]  (all "" = no Redirect)                        *)
(*   failover seq of [key, form, targets]   key "*" or a subset ;            *)
(*            targets seq of [svc, sub, dc]; form says how the harness      *)
(*            encodes them ("targets" | "single" | "dcs")                   *)
(*   wp       weight pattern of a splitter (not interpreted here)           *)
(* Stored entries additionally carry  mi  (ModifyIndex).                    *)
(***************************************************************************)
EXTENDS Integers, Sequences, FiniteSets, TLC

Range(s) == {s[i] : i \in DOMAIN s}
RECURSIVE Concat(_)
Concat(ss) == IF ss = <<>> THEN <<>> ELSE Head(ss) \o Concat(Tail(ss))

T(svc, sub, dc) == [svc |-> svc, sub |-> sub, dc |-> dc]
NoRef == T("", "", "")

Entry(kind, name) ==
  [kind |-> kind, name |-> name, protocol |-> "", routes |-> <<>>, legs |-> <<>>, subsets |-> <<>>,
   defsub |-> "", redirect |-> NoRef, failover |-> <<>>, wp |-> 0]

\* a stored entry without its ModifyIndex
Body(x) ==
  [kind |-> x.kind, name |-> x.name, protocol |-> x.protocol, routes |-> x.routes, legs |-> x.legs,
   subsets |-> x.subsets, defsub |-> x.defsub, redirect |-> x.redirect, failover |-> x.failover, wp |-> x.wp]
WithMi(e, i) == [kind |-> e.kind, name |-> e.name, protocol |-> e.protocol, routes |-> e.routes, legs |-> e.legs,
   subsets |-> e.subsets, defsub |-> e.defsub, redirect |-> e.redirect, failover |-> e.failover, wp |-> e.wp, mi |-> i]

Lookup(E, k, n) == {e \in E : e.kind = k /\ e.name = n}
Has(E, k, n) == Lookup(E, k, n) # {}
Get(E, k, n) == CHOOSE e \in Lookup(E, k, n) : TRUE

---------------------------------------------------------------------------
(* structs/config_entry_discoverychain.go  Validate()  of each kind (the part our universe
   can violate) *)
LegKey(e, i) == <<IF e.legs[i].svc = "" THEN e.name ELSE e.legs[i].svc, e.legs[i].sub>>
OwnSubsetOK(e, t) == (t.sub # "" /\ t.svc \in {"", e.name}) => t.sub \in Range(e.subsets)
ValidFailover(e, f) ==
  /\ f.key = "*" \/ f.key \in Range(e.subsets)
  /\ f.targets # <<>>
  /\ \A k \in DOMAIN f.targets : OwnSubsetOK(e, f.targets[k])
  /\ CASE f.form = "single" -> Len(f.targets) = 1 /\ f.targets[1].dc = "" /\ (f.targets[1].svc # "" \/ f.targets[1].sub # "")
       [] f.form = "dcs"    -> \A k \in DOMAIN f.targets : f.targets[k].dc # "" /\ f.targets[k].svc = f.targets[1].svc /\ f.targets[k].sub = f.targets[1].sub
       [] OTHER             -> TRUE
ValidEntry(e) ==
  CASE e.kind = "splitter" -> Len(e.legs) > 0 /\ \A i, j \in DOMAIN e.legs : i # j => LegKey(e, i) # LegKey(e, j)
    [] e.kind = "resolver" ->
         /\ e.defsub = "" \/ e.defsub \in Range(e.subsets)
         /\ e.redirect # NoRef =>
              /\ e.failover = <<>>                                        \* "Redirect and Failover cannot both be set"
              /\ (e.redirect.svc = "" => e.redirect.sub = "")             \* "ServiceSubset defined without Service"
              /\ OwnSubsetOK(e, e.redirect)
         /\ \A i \in DOMAIN e.failover : ValidFailover(e, e.failover[i])
    [] e.kind = "proxy" -> e.name = "global"
    [] OTHER -> TRUE

---------------------------------------------------------------------------
(* compile.go recordServiceProtocol / recordProtocol : a service-defaults entry decides alone
   (empty = tcp), otherwise proxy-defaults, otherwise tcp *)
Proto(E, s) ==
  IF Has(E, "defaults", s) THEN (IF Get(E, "defaults", s).protocol = "" THEN "tcp" ELSE Get(E, "defaults", s).protocol)
  ELSE IF Has(E, "proxy", "global") /\ Get(E, "proxy", "global").protocol # "" THEN Get(E, "proxy", "global").protocol
  ELSE "tcp"
HttpLike(p) == p \in {"http", "http2", "grpc"}      \* structs.IsProtocolHTTPLike

\* compile.go newDefaultServiceResolver
Res(E, n) == IF Has(E, "resolver", n) THEN Get(E, "resolver", n) ELSE Entry("resolver", n)

\* compile.go rewriteTarget (no peers, one namespace/partition) : a different service resets the subset
Rewrite(t, o) ==
  LET chg == o.svc # "" /\ o.svc # t.svc IN
  T(IF chg THEN o.svc ELSE t.svc,
    IF o.sub # "" THEN o.sub ELSE IF chg THEN "" ELSE t.sub,
    IF o.dc # "" THEN o.dc ELSE t.dc)

(* compile.go getResolverNode, the RESOLVE_AGAIN loop : follow Redirect, then DefaultSubset, with
   the redirectHistory as visited set.  Result [err, t, seen] : err "" and the final target, or the
   error class ; seen = services whose protocol the loop recorded. *)
RECURSIVE Resolve(_, _, _)
Resolve(E, t, hist) ==
  LET r  == Res(E, t.svc)
      rt == IF r.redirect # NoRef THEN Rewrite(t, r.redirect) ELSE t
      more(x) == LET y == Resolve(E, x, hist \cup {t}) IN [y EXCEPT !.seen = @ \cup {t.svc}]
  IN
  IF t \in hist THEN [err |-> "cycle", t |-> t, seen |-> {t.svc}]           \* "detected circular resolver redirect"
  ELSE IF rt # t THEN more(rt)
  ELSE IF t.sub = "" /\ r.defsub # "" THEN more([t EXCEPT !.sub = r.defsub])
  ELSE IF t.sub # "" /\ t.sub \notin Range(r.subsets) THEN [err |-> "missingSubset", t |-> t, seen |-> {t.svc}]
  ELSE [err |-> "", t |-> t, seen |-> {t.svc}]

\* getResolverNode: "Determine which failover section applies" (exact subset, else "*")
FoSection(r, sub) ==
  LET exact == {i \in DOMAIN r.failover : r.failover[i].key = sub}
      star  == {i \in DOMAIN r.failover : r.failover[i].key = "*"} IN
  IF exact # {} THEN r.failover[CHOOSE i \in exact : TRUE].targets
  ELSE IF star # {} THEN r.failover[CHOOSE i \in star : TRUE].targets
  ELSE <<>>
\* failover is ONE level: every candidate ("don't failover to yourself") is resolved with a fresh history
FoCands(E, t) == LET sec == FoSection(Res(E, t.svc), t.sub) IN
                 SelectSeq([i \in 1..Len(sec) |-> Rewrite(t, sec[i])], LAMBDA x : x # t)
FoOf(E, t) == LET c == FoCands(E, t) IN [i \in 1..Len(c) |-> Resolve(E, c[i], {})]

---------------------------------------------------------------------------
(* compile.go assembleChain / getSplitterOrResolverNode / getSplitterNode *)
AdvOff(ctx) == ctx.op # "" /\ ~HttpLike(ctx.op)                 \* disableAdvancedRoutingFeatures
RouterOn(E, ctx, s) == ~AdvOff(ctx) /\ Has(E, "router", s)
SplitOn(E, ctx, s)  == ~AdvOff(ctx) /\ Has(E, "splitter", s)

HopS(svc) == [k |-> "S", svc |-> svc, t |-> NoRef]                \* next hop is the splitter of svc
HopR(t)   == [k |-> "R", svc |-> "", t |-> t]                     \* next hop is the resolution of target t
Hop(E, ctx, svc, sub) == IF sub = "" /\ SplitOn(E, ctx, svc) THEN HopS(svc) ELSE HopR(T(svc, sub, ctx.dc))
\* the routes in order plus the catch-all route to the router's own service
RouteHops(E, ctx, s) ==
  LET rs == Get(E, "router", s).routes IN
  [i \in 1..Len(rs) |-> Hop(E, ctx, IF rs[i].svc = "" THEN s ELSE rs[i].svc, rs[i].sub)] \o <<Hop(E, ctx, s, "")>>
\* a leg is "eligible for additional splitting" when it names another service without subset
LegHops(E, ctx, s) ==
  LET ls == Get(E, "splitter", s).legs IN
  [i \in 1..Len(ls) |-> LET svc == IF ls[i].svc = "" THEN s ELSE ls[i].svc IN
                        IF svc # s /\ ls[i].sub = "" /\ SplitOn(E, ctx, svc) THEN HopS(svc) ELSE HopR(T(svc, ls[i].sub, ctx.dc))]
TopHops(E, ctx, s) == IF RouterOn(E, ctx, s) THEN RouteHops(E, ctx, s) ELSE <<Hop(E, ctx, s, "")>>

SOf(H) == {h.svc : h \in {x \in H : x.k = "S"}}
ROf(H) == {h.t : h \in {x \in H : x.k = "R"}}
SuccS(E, ctx, S) == SOf(UNION {Range(LegHops(E, ctx, x)) : x \in S})
RECURSIVE CloseS(_, _, _)
CloseS(E, ctx, S) == LET N == S \cup SuccS(E, ctx, S) IN IF N = S THEN S ELSE CloseS(E, ctx, N)
TopS(E, ctx, s)   == SOf(Range(TopHops(E, ctx, s)))
ReachS(E, ctx, s) == CloseS(E, ctx, TopS(E, ctx, s))              \* splitters the assembly builds
\* compile.go detectCircularReferences : only splitter -> splitter edges can close a loop
SplitCycle(E, ctx, s) == \E x \in ReachS(E, ctx, s) : x \in CloseS(E, ctx, SuccS(E, ctx, {x}))
RawT(E, ctx, s) == ROf(Range(TopHops(E, ctx, s)) \cup UNION {Range(LegHops(E, ctx, x)) : x \in ReachS(E, ctx, s)})

NoT == NoRef
RId(t)  == [k |-> "resolver", svc |-> t.svc, sub |-> t.sub, dc |-> t.dc]
SId(x)  == [k |-> "splitter", svc |-> x, sub |-> "", dc |-> ""]
RtId(x) == [k |-> "router", svc |-> x, sub |-> "", dc |-> ""]
HopNode(E, h) == IF h.k = "S" THEN SId(h.svc) ELSE RId(Resolve(E, h.t, {}).t)
\* compile.go flattenAdjacentSplitterNodes (only called on an acyclic splitter graph)
RECURSIVE Flat(_, _, _)
Flat(E, ctx, x) ==
  LET hs == LegHops(E, ctx, x) IN
  Concat([i \in 1..Len(hs) |-> IF hs[i].k = "S" THEN Flat(E, ctx, hs[i].svc) ELSE <<HopNode(E, hs[i])>>])

(* ChainErrs(E, s, ctx) : the set of error classes a full assembly of the chain meets ; {} = the chain
   compiles (the code reports the first error it meets: any member is accepted). *)
AllResolves(E, ctx, s) ==
  LET main == {Resolve(E, t, {}) : t \in RawT(E, ctx, s)} IN
  main \cup UNION {Range(FoOf(E, r.t)) : r \in {x \in main : x.err = ""}}
ChainProtos(E, ctx, s) ==
  {Proto(E, x) : x \in UNION {r.seen : r \in AllResolves(E, ctx, s)} \cup (IF RouterOn(E, ctx, s) THEN {s} ELSE {})}
ChainErrs(E, s, ctx) ==
  LET all    == AllResolves(E, ctx, s)
      protos == {Proto(E, x) : x \in UNION {r.seen : r \in all} \cup (IF RouterOn(E, ctx, s) THEN {s} ELSE {})}
      adv    == RouterOn(E, ctx, s) \/ TopS(E, ctx, s) # {}                 \* usesAdvancedRoutingFeatures
      perr   == Cardinality(protos) > 1 \/ (adv /\ \E p \in protos : ~HttpLike(p))
  IN ({r.err : r \in all} \ {""})
     \cup (IF SplitCycle(E, ctx, s) THEN {"cycle"} ELSE {})                 \* "detected circular reference"
     \cup (IF perr THEN {"protocol"} ELSE {})                              \* "inconsistent protocols" / "does not permit advanced routing"

(* Chain(E, s, ctx) = [errs, proto, g] ; g is the graph after flattening and pruning when errs = {} *)
Chain(E, s, ctx) ==
  LET errs   == ChainErrs(E, s, ctx)
      ron    == RouterOn(E, ctx, s)
      top    == TopHops(E, ctx, s)
      finals == {r.t : r \in {x \in {Resolve(E, t, {}) : t \in RawT(E, ctx, s)} : x.err = ""}}
      fos    == [t \in finals |-> FoOf(E, t)]
      topNext == [i \in 1..Len(top) |-> HopNode(E, top[i])]
      rnode  == IF ron THEN {[id |-> RtId(s), type |-> "router", next |-> topNext, target |-> NoT, failover |-> <<>>]} ELSE {}
      snodes == {[id |-> SId(x), type |-> "splitter", next |-> Flat(E, ctx, x), target |-> NoT, failover |-> <<>>] : x \in TopS(E, ctx, s)}
      resn   == {[id |-> RId(t), type |-> "resolver", next |-> <<>>, target |-> t,
                  failover |-> [i \in 1..Len(fos[t]) |-> fos[t][i].t]] : t \in finals}
      tgts   == finals \cup UNION {{r.t : r \in Range(fos[t])} : t \in finals}
  IN
  IF errs # {} THEN [errs |-> errs, proto |-> "", g |-> [start |-> NoT, nodes |-> {}, targets |-> {}]]
  ELSE [errs  |-> {},
        proto |-> IF ctx.op # "" THEN ctx.op ELSE CHOOSE p \in ChainProtos(E, ctx, s) : TRUE,
        g     |-> [start |-> IF ron THEN RtId(s) ELSE topNext[1], nodes |-> rnode \cup snodes \cup resn,
                   targets |-> {[id |-> t, svc |-> t.svc, sub |-> t.sub, dc |-> t.dc] : t \in tgts}]]

ChainOK(E, s, ctx) == ChainErrs(E, s, ctx) = {}

---------------------------------------------------------------------------
(* The property on a compiled graph  g = [start, nodes, targets]  (ids are opaque: records in the
   reference graph, strings in the implementation's) *)
NodeIds(g)   == {n.id : n \in g.nodes}
TargetIds(g) == {x.id : x \in g.targets}
NodeById(g, id) == CHOOSE n \in g.nodes : n.id = id
UniqueIds(g) == /\ \A m, n \in g.nodes : m.id = n.id => m = n
                /\ \A x, y \in g.targets : x.id = y.id => x = y
\* every referenced node and target exists
Closed(g) ==
  /\ g.start \in NodeIds(g)
  /\ \A n \in g.nodes :
       /\ \A i \in DOMAIN n.next : n.next[i] \in NodeIds(g)
       /\ n.type = "resolver" => n.target \in TargetIds(g) /\ \A i \in DOMAIN n.failover : n.failover[i] \in TargetIds(g)
Succs(g, ids) == UNION {Range(n.next) : n \in {m \in g.nodes : m.id \in ids}}
RECURSIVE ReachFrom(_, _)
ReachFrom(g, S) == LET N == S \cup Succs(g, S) IN IF N = S THEN S ELSE ReachFrom(g, N)
\* no node reaches itself
Acyclic(g) == \A n \in g.nodes : n.id \notin ReachFrom(g, Range(n.next))
\* every node reachable from the start is a router/splitter with at least one way out or a resolver
\* with an existing target (with Acyclic: every path from the start ends at such a resolver)
AllPathsEndInResolverWithTarget(g) ==
  /\ g.start \in NodeIds(g)
  /\ \A id \in ReachFrom(g, {g.start}) :
       /\ id \in NodeIds(g)
       /\ LET n == NodeById(g, id) IN
          IF n.type = "resolver" THEN n.next = <<>> /\ n.target \in TargetIds(g)
          ELSE n.type \in {"router", "splitter"} /\ n.next # <<>>
WellFormed(g) == UniqueIds(g) /\ Closed(g) /\ Acyclic(g) /\ AllPathsEndInResolverWithTarget(g)

---------------------------------------------------------------------------
(* The store : state/config_entry.go EnsureConfigEntry(CAS) / DeleteConfigEntry(CAS) with
   validateProposedConfigEntryInGraph -> validateProposedConfigEntryInServiceGraph ->
   testCompileDiscoveryChain.   st = [ents] , ents a set of entries with mi.  *)
Bodies(st) == {Body(x) : x \in st.ents}
Put(ents, e, i) == {x \in ents : ~(x.kind = e.kind /\ x.name = e.name)} \cup {WithMi(e, i)}
Del(ents, k, n) == {x \in ents : ~(x.kind = k /\ x.name = n)}

RefsOf(e) == {r.svc : r \in {x \in Range(e.routes) \cup Range(e.legs) \cup {e.redirect}
                                      \cup UNION {Range(e.failover[i].targets) : i \in DOMAIN e.failover} : x.svc # ""}}
Names(E) == {e.name : e \in {x \in E : x.kind # "proxy"}} \cup UNION {RefsOf(e) : e \in E}

\* contexts under which stored sets must compile: the write-time validation compiles without
\* overrides; OverrideProtocol = tcp (what a tcp ingress listener / upstream override asks for) removes
\* routers and splitters and so exposes resolvers the default evaluation never reaches
DefaultCtx == [dc |-> "dc1", op |-> ""]
TcpCtx     == [dc |-> "dc1", op |-> "tcp"]
AllOKIn(E, C) == \A s \in Names(E), ctx \in C : ChainOK(E, s, ctx)

(* Property-conforming outcome of a proposed change E -> E2, judged in the contexts C:
   "ok" when everything compiles afterwards, "reject" when a chain that compiles would stop
   compiling, "any" when chains were already broken and stay so (the statement is silent). *)
Outcome(E, E2, C) ==
  LET bad2 == {p \in (Names(E) \cup Names(E2)) \X C : ~ChainOK(E2, p[1], p[2])} IN
  IF bad2 = {} THEN "ok" ELSE IF \E p \in bad2 : ChainOK(E, p[1], p[2]) THEN "reject" ELSE "any"

CasPass(ents, c, k, n) ==
  LET ex == Lookup(ents, k, n) IN
  IF c.mode # "cas" THEN TRUE
  ELSE IF c.t = "write" THEN (IF c.cidx = 0 THEN ex = {} ELSE ex # {} /\ (CHOOSE x \in ex : TRUE).mi = c.cidx)
  ELSE ex # {} /\ (CHOOSE x \in ex : TRUE).mi = c.cidx

\* Apply(st, c, C) = [new, class] : class in "ok" "reject" "casfail" "invalid" "any" ; new is the state
\* after an ACCEPTED change (for every other class the state must stay st)
Apply(st, c, C) ==
  IF c.t = "write" THEN
    IF ~ValidEntry(c.e) THEN [new |-> st, class |-> "invalid"]
    ELSE IF ~CasPass(st.ents, c, c.e.kind, c.e.name) THEN [new |-> st, class |-> "casfail"]
    ELSE LET new == Put(st.ents, c.e, c.idx) IN
         [new |-> [st EXCEPT !.ents = new], class |-> Outcome(Bodies(st), {Body(x) : x \in new}, C)]
  ELSE \* delete
    IF ~CasPass(st.ents, c, c.kind, c.name) THEN [new |-> st, class |-> "casfail"]
    ELSE IF Lookup(st.ents, c.kind, c.name) = {} THEN [new |-> st, class |-> "ok"]       \* deleteConfigEntryTxn: absent = no-op
    ELSE LET new == Del(st.ents, c.kind, c.name) IN
         [new |-> [st EXCEPT !.ents = new], class |-> Outcome(Bodies(st), {Body(x) : x \in new}, C)]

StoredSetsAlwaysCompile(st, C) == AllOKIn(Bodies(st), C)
=============================================================================
