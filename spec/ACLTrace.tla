------------------------------ MODULE ACLTrace ------------------------------
(* Trace validation for C08 (DESIGN.md 2.2).  trace.ndjson holds what h-acl recorded   *)
(* from the REAL acl package / structs.ACLPolicies.Compile / consul.ACLResolver:        *)
(*   {cmd:{t:"decide", rules, dflt, names}, res:{n, tables, hows}}                       *)
(*        one rule set realised as HCL policies in n ways (every policy order, one      *)
(*        policy or many, with or without Compile); tables = the DISTINCT tables seen   *)
(*   {cmd:{t:"world", env, names, dflt, via, cache}}      start of a history            *)
(*   {cmd:{t:"setpolicy", p, rules}} / {cmd:{t:"delpolicy", p}}                          *)
(*   {cmd:{t:"resolve", tok}, res:{shared, fresh}}                                       *)
(*        shared = table of the authorizer returned through the history's ONE cache,    *)
(*        fresh  = table of an authorizer built from the token's own policies alone     *)
(* A table is a record  method -> sequence of "allow"/"deny" (one per name).            *)
(* Judgement is step-local; the abstract world `env` is advanced with the commands      *)
(* (inputs only - never with anything the implementation answered).                     *)
EXTENDS ACL, Json

Trace == ndJsonDeserialize("trace.ndjson")
VARIABLES l, env

NoEnv == [pol |-> <<>>, roles |-> <<>>, tok |-> <<>>, names |-> <<>>, dflt |-> "deny"]

AbsLinks(j) == [x \in DOMAIN j |-> ToSet(j[x])]
AbsEnv(c) ==
  [pol   |-> [p \in DOMAIN c.env.pol |-> ToSet(c.env.pol[p])],
   roles |-> [r \in DOMAIN c.env.roles |-> AbsLinks(c.env.roles[r])],
   tok   |-> [t \in DOMAIN c.env.tok |-> AbsLinks(c.env.tok[t])],
   names |-> c.names, dflt |-> c.dflt]

\* the abstract world after the command (spec side of setpolicy / delpolicy)
EnvAfter(e, c) ==
  CASE c.t = "world"     -> AbsEnv(c)
    [] c.t = "setpolicy" -> [e EXCEPT !.pol = Upd(e.pol, c.p, ToSet(c.rules))]
    [] c.t = "delpolicy" -> [e EXCEPT !.pol = [p \in DOMAIN e.pol \ {c.p} |-> e.pol[p]]]
    [] OTHER             -> e

Tag(p, S) == {p \o "." \o m : m \in S}
F(name, ok) == IF ok THEN {} ELSE {name}

\* the clauses of the property statement evaluated on an implementation table
Clauses(R, T, names, dflt) ==
       F("ExactWins", ExactWins(R, T, names))
  \cup F("LongestPrefixWins", LongestPrefixWins(R, T, names))
  \cup F("DenyOverrides", DenyOverrides(R, T, names))
  \cup F("DefaultDecides", DefaultDecides(R, T, names, dflt))

WellFormed(T, names) ==
  \A m \in DOMAIN T : /\ Len(T[m]) \in {1, Len(names)}
                      /\ \A i \in DOMAIN T[m] : T[m][i] \in {"allow", "deny"}

Verdict(i) ==
  LET e == Trace[i]
      c == e.cmd
  IN CASE c.t = "decide" ->
            LET R == ToSet(c.rules)
                T == e.res.tables[1]
            IN   F("OrderIndependent", Len(e.res.tables) = 1)            \* every realisation gave the same table
            \cup F("WellFormed", \A k \in DOMAIN e.res.tables : WellFormed(e.res.tables[k], c.names))
            \cup UNION {Tag("Semantics", Mismatch(e.res.tables[k], R, c.dflt, c.names)) : k \in DOMAIN e.res.tables}
            \cup Clauses(R, T, c.names, c.dflt)
       [] c.t = "resolve" ->
            LET R == OwnRules(env, c.tok)                                 \* the token's OWN policies, roles, identities
                mmF == Mismatch(e.res.fresh, R, env.dflt, env.names)
                mmS == IF e.res.shared = e.res.fresh THEN mmF ELSE Mismatch(e.res.shared, R, env.dflt, env.names)
            IN   F("WellFormed", WellFormed(e.res.shared, env.names) /\ WellFormed(e.res.fresh, env.names))
            \cup Tag("NoCrossTalk", mmS)
            \cup Tag("Semantics", mmF)
            \cup Clauses(R, e.res.fresh, env.names, env.dflt)
       [] OTHER -> {}

Init == l = 1 /\ env = NoEnv
Next == /\ l <= Len(Trace)
        /\ LET v == Verdict(l) IN IF v = {} THEN TRUE ELSE PrintT(<<"REJECT", l, v>>)
        /\ env' = EnvAfter(env, Trace[l].cmd)
        /\ l' = l + 1
Spec == Init /\ [][Next]_<<l, env>>
Consumed == TLCGet("stats").distinct = Len(Trace) + 1 \/ TLCGet("stats").distinct = 0
=============================================================================
