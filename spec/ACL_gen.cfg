SPECIFICATION Spec
CONSTANTS
  Profile = "sem"
  MaxRules = 2
  MaxDepth = 2
  Fams = {"agent", "event", "key", "node", "query", "service", "session", "scalar"}
  NameCount = 5
  SvcInts = {"", "deny", "read", "write"}
  NC1 = 4
  NC2 = 4
  NC3 = 2
  AliasBug = FALSE
  TokSet = "base"
VIEW View
INVARIANTS InvExactWins InvLongestPrefix InvDenyOverrides InvDefaultDecides InvMergeOrderFree InvVariantsAgree InvTotal EmitR
CHECK_DEADLOCK FALSE
