SPECIFICATION Spec
CONSTANTS
  NC = 2
  MaxCommits = 2
  MaxSubs = 2
  MaxRestores = 0
  Profile = "health"
  G = TRUE
  Ttls = {FALSE}
VIEW View
INVARIANTS InvViewExact InvNoSkip InvRestoreCloses InvAclCloses InvClosedNeverData
PROPERTIES PropIdxMonotone
CHECK_DEADLOCK FALSE
