-------------------------------- MODULE RBAC --------------------------------
(* C14: the authorization policy delivered to a destination's proxy enforces     *)
(* exactly the intention decision.                                                *)
(*                                                                                *)
(* Layer 0  Decision7: the precedence semantics at request level (on top of        *)
(*          Intentions.tla).                                                       *)
(* Layer 1  Translate: transcription of agent/xds/rbac.go makeRBACRules into an     *)
(*          abstract boolean policy.                                               *)
(* Layer 2  Eval: Envoy's RBAC engine on the abstract policy.                       *)
(* Theorem (checked by TLC for all small sets):  Eval(Translate(I)) = Decision7(I). *)
(*                                                                                *)
(* An intention here is  [src, peer, dst, act, perms]  with perms a sequence of      *)
(*   [act, pk, pv, methods, hk, hv]   pk \in {"none","exact","prefix"}, pv = path as   *)
(*   a sequence of byte values; methods a set (empty = any); hk \in {"none",            *)
(*   "present","exact"} on the single header of the universe, hv its value.            *)
(* A request is [path, method, hdr]  (hdr = <<>> absent, <<v>> present with value v).   *)
(* A caller is  [name, peer]; peer = NOPEER for any identity of the local trust          *)
(* domain (the datacenter is not part of the decision), a peer name for an identity      *)
(* of that peer's trust domain, anything else for an unknown trust domain.               *)
EXTENDS Intentions

CONSTANT AsCoded   \* TRUE: rbac.go as it is today ; FALSE: with the covered-source rule (see Kept)

\* ------------------------------------------------------------------ layer 0: the decision
PathHasPrefix(p, s) == Len(p) <= Len(s) /\ SubSeq(s, 1, Len(p)) = p

\* structs.IntentionHTTPPermission semantics (docs: all given criteria must hold)
MMatches(m, rq) ==
  /\ CASE m.pk = "none"   -> TRUE
       [] m.pk = "exact"  -> rq.path = m.pv
       [] m.pk = "prefix" -> PathHasPrefix(m.pv, rq.path)
  /\ (m.methods = {} \/ rq.method \in m.methods)
  /\ CASE m.hk = "none"    -> TRUE
       [] m.hk = "present" -> rq.hdr # <<>>
       [] m.hk = "exact"   -> rq.hdr = <<m.hv>>

FirstPerm(perms, rq) ==
  LET hits == {k \in DOMAIN perms : MMatches(perms[k], rq)} IN
  IF hits = {} THEN 0 ELSE CHOOSE k \in hits : \A j \in hits : k <= j

\* The single most specific intention matching (caller, d) decides.  With permissions: on a TCP
\* listener it counts as deny (rbac.go "treat them as deny intentions", same as Intention.Check); on an
\* HTTP listener the first permission matching the request decides, and a request matching none of them
\* is subject to the default policy (service-intentions documentation).
Decision7(I, c, d, default, proto, rq) ==
  LET M == Matching(I, c, d) IN
  IF M = {} THEN default
  ELSE LET t == Top(M) IN
       IF t.act # "l7" THEN t.act
       ELSE IF proto = "tcp" THEN "deny"
       ELSE LET k == FirstPerm(t.perms, rq) IN IF k = 0 THEN default ELSE t.perms[k].act

\* ------------------------------------------------------------------ layer 1: rbac.go
SrcOf(i) == [name |-> i.src, peer |-> i.peer]
CountWild(s) == IF s.name = WILD THEN 1 ELSE 0          \* countWild (CE: namespace never wild)
\* ixnSourceMatches(tester, against): the tester is covered by the strictly more wildcarded "against"
Covers(against, tester) ==
  /\ CountWild(tester) < CountWild(against)
  /\ tester.peer = against.peer
  /\ (tester.name = against.name \/ against.name = WILD)

\* intentionListToIntermediateRBACForm: sort by precedence, removeSameSourceIntentions (a later intention
\* with the SAME source is dropped; same source + other destination => different precedence).
\* Property-conforming variant (AsCoded = FALSE): an intention is also dropped when a HIGHER-precedence
\* intention has a source that COVERS its source ("* -> db" (8) shadows "web -> *" (6) completely): the
\* code as it is keeps it, and since NOT-distribution only goes from less to more wildcarded sources the
\* shadowed rule stays effective.
Kept(I) ==
  {i \in I :
     /\ ~\E j \in I : j # i /\ SrcOf(j) = SrcOf(i) /\ Prec(j) > Prec(i)
     /\ (AsCoded \/ ~\E j \in I : Covers(SrcOf(j), SrcOf(i)) /\ Prec(j) > Prec(i))}

\* intentionToIntermediateRBACForm: action of the rule
RAct(i, proto) == IF i.act = "l7" THEN (IF proto = "http" THEN "l7" ELSE "deny") ELSE i.act

\* removeSourcePrecedence: walking backwards, source i is added as NOT to every LATER (lower precedence)
\* rule j that is not skipped and whose source covers it; a rule whose action equals the default is skipped.
NotSources(K, j) == {SrcOf(i) : i \in {x \in K : Prec(x) > Prec(j) /\ Covers(SrcOf(j), SrcOf(x))}}
\* simplifyNotSourceSlice: drop a NOT-source covered by another NOT-source
Simplify(N) == {s \in N : ~\E t \in N : Covers(t, s)}

\* removePermissionPrecedence: permission k gets NOT of every earlier permission; a permission whose
\* action equals the default is dropped (after having been distributed)
Perms(i, default) ==
  {[m |-> i.perms[k], nots |-> {i.perms[n] : n \in 1..(k - 1)}] : k \in {x \in DOMAIN i.perms : i.perms[x].act # default}}

\* makeRBACRules: default deny -> ALLOW list of everything that allows; default allow -> DENY list.
\* L4 rules share one policy (permission any); every L7 rule is a policy of its own.
Translate(I, default, proto) ==
  LET K == Kept(I)
      rules == {i \in K : RAct(i, proto) # default}
      prin(i) == [src |-> SrcOf(i), nots |-> Simplify(NotSources(K, i))]
  IN [action |-> IF default = "allow" THEN "DENY" ELSE "ALLOW",
      l4 |-> {prin(i) : i \in {x \in rules : RAct(x, proto) # "l7"}},
      l7 |-> {[p |-> prin(i), perms |-> Perms(i, default)] : i \in {x \in rules : RAct(x, proto) = "l7" /\ Perms(x, default) # {}}}]

\* ------------------------------------------------------------------ layer 2: Envoy RBAC
\* idPrincipal / xfccPrincipal as INTENDED: the SPIFFE pattern of a source matches exactly the identities
\* of that name (any name for "*") in that trust domain, any datacenter.
IdMatches(s, c) == s.peer = c.peer /\ (s.name = WILD \/ s.name = c.name)
PrincipalMatches(p, c) == IdMatches(p.src, c) /\ \A n \in p.nots : ~IdMatches(n, c)
PermMatches(cp, rq) == MMatches(cp.m, rq) /\ \A n \in cp.nots : ~MMatches(n, rq)

Eval(rbac, c, rq) ==
  LET matched == \/ \E p \in rbac.l4 : PrincipalMatches(p, c)
                 \/ \E pol \in rbac.l7 : PrincipalMatches(pol.p, c) /\ \E cp \in pol.perms : PermMatches(cp, rq)
  IN IF rbac.action = "ALLOW" THEN matched ELSE ~matched

\* the shape behind the precedence inversion of the code as it is: the deciding intention has a wildcard
\* source and an exact destination, and an intention with an exact source and a wildcard destination
\* also matches the caller
InversionShape(I, c, d) ==
  LET M == Matching(I, c, d) IN
  M # {} /\ Top(M).src = WILD /\ Top(M).dst # WILD /\ \E j \in M : j.src # WILD /\ j.dst = WILD
=============================================================================
