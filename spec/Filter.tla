------------------------------- MODULE Filter -------------------------------
(* C09 - ACL enforcement: nothing unreadable returned, expired tokens never honoured.     *)
(*                                                                                         *)
(* Part 1 (filtering).  A read response is abstracted to a sequence of GROUPS, a group to  *)
(* an optional head node and a sequence of ELEMENTS, an element to its ACL facts and (for  *)
(* node dumps) two sequences of LEAVES (services, checks).  One table (Keys/Rule/HasFlag/   *)
(* Ordered/Head/SubRules) says, for every concrete Go type handled by the type switch of   *)
(* agent/structs/aclfilter/filter.go Filter.Filter (35 cases) and for the two slice        *)
(* filters of agent/consul/filter.go, which shape and which readability rule applies.      *)
(* The properties are predicates over (input, output, flag) and are evaluated both on the  *)
(* reference filter (model checking) and on outputs recorded from the real code            *)
(* (FilterTrace).  The loops the code uses (splice-in-place, collect, span compaction) are  *)
(* transcribed and checked against the declarative filter for every arrangement.           *)
(*                                                                                         *)
(* Part 2 (expiry).  A token with an expiration time, a clock phase, the state store row,  *)
(* the resolver's identity cache and the reachability of the primary datacenter.           *)
(* ExpiredNeverHonoured: after the expiration time no resolution authorizes anything.      *)
EXTENDS Integers, Sequences, FiniteSets, SequencesExt, TLC

F(name, ok) == IF ok THEN {} ELSE {name}
Count(seq, x) == Cardinality({i \in DOMAIN seq : seq[i] = x})

RECURSIVE IsSubSeq(_, _)
IsSubSeq(a, b) == IF a = <<>> THEN TRUE
                  ELSE IF b = <<>> THEN FALSE
                  ELSE IF Head(a) = Head(b) THEN IsSubSeq(Tail(a), Tail(b))
                  ELSE IsSubSeq(a, Tail(b))

(***************************************************************************************)
(* Facts of an element (all strings, "na" = not applicable to the type)                *)
(*   n  node read          "ok" "no"                                                   *)
(*   s  service read       "ok" "no" "empty" (no service name: node-level check)       *)
(*   g  gateway read / intention source read   "ok" "no" "peer" (source is a peer)     *)
(*   x  session / key / query / intention-destination / match-entry read               *)
(*                         "ok" "no" "unnamed" (prepared query without a name)         *)
(*   t  embedded secret    "set" "empty"                                               *)
(*   v  transaction result variant "kv" "node" "svc" "chk"                             *)
(*   d  "yes": the element is the same value/pointer as its predecessor (duplicate)    *)
(*   lab  label under which the element is projected (id tag or name)                  *)
(*   subs <<services, checks>> for node dumps, <<>> otherwise                          *)
(***************************************************************************************)
El(n, s, g, x, t, v) == [n |-> n, s |-> s, g |-> g, x |-> x, t |-> t, v |-> v, d |-> "no", lab |-> "", subs |-> <<>>]

(* ------------------------------------------------------------------------------------ *)
(* The type table.  Kind = the Go type name (pointer stars dropped; "One" suffix = the   *)
(* **T single-object case of the same switch).                                           *)
(* ------------------------------------------------------------------------------------ *)
SwitchKinds == {
  "CheckServiceNodes", "IndexedCheckServiceNodes", "PreparedQueryExecuteResponse", "IndexedServiceTopology",
  "DatacenterIndexedCheckServiceNodes", "IndexedCoordinates", "IndexedHealthChecks", "IndexedIntentions",
  "IntentionQueryMatch", "IndexedNodeDump", "IndexedServiceDump", "IndexedNodes", "IndexedNodeServices",
  "IndexedNodeServiceList", "IndexedServiceNodes", "IndexedServices", "IndexedSessions", "IndexedPreparedQueries",
  "PreparedQueryOne", "ACLTokens", "ACLTokenOne", "ACLTokenListStubs", "ACLTokenListStubOne", "ACLPolicies",
  "ACLPolicyOne", "ACLRoles", "ACLRoleOne", "ACLBindingRules", "ACLBindingRuleOne", "ACLAuthMethods",
  "ACLAuthMethodOne", "IndexedServiceList", "IndexedExportedServiceList", "IndexedGatewayServices",
  "IndexedNodesWithGateways" }
SliceKinds == {"DirEntries", "TxnResults"}          \* agent/consul/filter.go FilterDirEnt / FilterTxnResults
AllKinds == SwitchKinds \cup SliceKinds
ASSUME Cardinality(SwitchKinds) = 35

DynKinds == {"DatacenterIndexedCheckServiceNodes", "IndexedExportedServiceList"}   \* group = map entry
SingleKinds == {"PreparedQueryOne", "ACLTokenOne", "ACLTokenListStubOne", "ACLPolicyOne", "ACLRoleOne",
                "ACLBindingRuleOne", "ACLAuthMethodOne"}
AclKinds == {"ACLTokens", "ACLTokenOne", "ACLTokenListStubs", "ACLTokenListStubOne", "ACLPolicies", "ACLPolicyOne",
             "ACLRoles", "ACLRoleOne", "ACLBindingRules", "ACLBindingRuleOne", "ACLAuthMethods", "ACLAuthMethodOne"}
SecretKinds == {"ACLTokens", "ACLTokenOne", "ACLTokenListStubs", "ACLTokenListStubOne", "IndexedPreparedQueries",
                "PreparedQueryOne"}
AclSensitive(kind) == kind \in AclKinds \cup {"IndexedPreparedQueries", "PreparedQueryOne"}

\* fixed group keys (DynKinds: keys are data)
Keys(kind) ==
  CASE kind = "IndexedServiceTopology"   -> <<"up", "down">>
    [] kind = "IndexedNodeDump"          -> <<"dump", "imported">>
    [] kind = "IndexedNodesWithGateways" -> <<"nodes", "gateways", "imported">>
    [] kind \in DynKinds                 -> <<>>
    [] OTHER                             -> <<"list">>

\* readability rule of the elements of group `key`
Rule(kind, key) ==
  CASE kind \in {"CheckServiceNodes", "IndexedCheckServiceNodes", "PreparedQueryExecuteResponse",
                 "IndexedServiceTopology", "DatacenterIndexedCheckServiceNodes"}           -> "csn"
    [] kind = "IndexedNodesWithGateways" -> IF key = "gateways" THEN "gwsvc" ELSE "csn"
    [] kind \in {"IndexedCoordinates", "IndexedNodes", "IndexedNodeDump"}                  -> "node"
    [] kind = "IndexedHealthChecks"      -> "check"
    [] kind = "IndexedIntentions"        -> "intention"
    [] kind = "IntentionQueryMatch"      -> "match"
    [] kind = "IndexedServiceDump"       -> "svcdump"
    [] kind \in {"IndexedNodeServices", "IndexedNodeServiceList", "IndexedServices", "IndexedServiceList",
                 "IndexedExportedServiceList"}                                             -> "svc"
    [] kind = "IndexedServiceNodes"      -> "svcnode"
    [] kind = "IndexedSessions"          -> "session"
    [] kind = "IndexedPreparedQueries"   -> "pq"
    [] kind = "PreparedQueryOne"         -> "always"
    [] kind \in AclKinds                 -> "acl"
    [] kind = "IndexedGatewayServices"   -> "gwsvc"
    [] kind = "DirEntries"               -> "key"
    [] kind = "TxnResults"               -> "txn"

SubRules(kind) == IF kind = "IndexedNodeDump" THEN <<"subsvc", "subchk">> ELSE <<>>
Headed(kind) == kind \in {"IndexedNodeServices", "IndexedNodeServiceList"}   \* one node heads the whole response
Ordered(kind) == kind \notin {"IndexedNodeServices", "IndexedServices"}    \* Go maps: no order to preserve
\* does the type carry QueryMeta.ResultsFilteredByACLs that Filter is responsible for
HasFlag(kind) == kind \notin AclKinds \cup SliceKinds \cup {"CheckServiceNodes", "IntentionQueryMatch", "PreparedQueryOne"}

(* ------------------------------------------------------------------------------------ *)
(* Readability.  Transcribed from the property statement / ACL documentation; where the *)
(* statement is silent the rule follows the code and the deviation is NAMED:            *)
(*   GatewayServiceReadByLinkedServiceOnly  filterGatewayServices checks only the linked *)
(*        service (the gateway is vetted by the GatewayServices endpoint beforehand).    *)
(*   TxnCheckReadByServiceOnly  txnResultsFilter: a service check in a transaction       *)
(*        result needs service read only, a node check node read only.                   *)
(*   ServiceDumpNodeOptional  filterServiceDump: an entry without node information needs *)
(*        gateway and service read only.                                                 *)
(*   IntentionReadEitherEnd  Intention.CanRead: intention read on source OR destination; *)
(*        a peered source is never consulted.                                            *)
(*   UnnamedPreparedQueryDroppedSilently  un-named queries are visible to acl:write only *)
(*        and their removal does not raise the flag.                                     *)
(*   IntentionMatchAllOrNothing  one unreadable match entry empties the whole query.     *)
(*   ManagementSeesAllQueries  with acl:write prepared queries are not filtered at all.  *)
(* ------------------------------------------------------------------------------------ *)
Readable(rule, acl, e) ==
  CASE rule = "node"      -> e.n = "ok"
    [] rule = "session"   -> e.x = "ok"                                  \* a session is read by its node's session rule
    [] rule = "check"     -> e.n = "ok" /\ e.s \in {"ok", "empty"}       \* node AND service
    [] rule = "svcnode"   -> e.n = "ok" /\ e.s = "ok"
    [] rule = "csn"       -> e.n = "ok" /\ e.s = "ok"
    [] rule = "svc"       -> e.s = "ok"
    [] rule = "gwsvc"     -> e.s = "ok"                                  \* GatewayServiceReadByLinkedServiceOnly
    [] rule = "svcdump"   -> e.g = "ok" /\ e.s = "ok" /\ e.n \in {"ok", "na"}   \* ServiceDumpNodeOptional
    [] rule = "intention" -> e.g = "ok" \/ e.x = "ok"                    \* IntentionReadEitherEnd
    [] rule = "pq"        -> acl = "write" \/ e.x = "ok"                 \* ManagementSeesAllQueries
    [] rule = "acl"       -> acl \in {"read", "write"}
    [] rule = "key"       -> e.x = "ok"
    [] rule = "txn"       -> (CASE e.v = "kv"   -> e.x = "ok"
                                [] e.v = "node" -> e.n = "ok"
                                [] e.v = "svc"  -> e.s = "ok"
                                [] OTHER        -> IF e.s = "empty" THEN e.n = "ok" ELSE e.s = "ok")   \* TxnCheckReadByServiceOnly
    [] rule = "subsvc"    -> e.s = "ok"                                  \* under a readable node
    [] rule = "subchk"    -> e.s \in {"ok", "empty"}
    [] rule = "match"     -> e.x # "no"
    [] OTHER              -> TRUE                                        \* "always"

\* secrets (token SecretID, token captured in a prepared query) are visible with acl:write only
SecretVisible(acl) == acl = "write"
TokOut(kind, acl, e) ==
  IF kind \notin SecretKinds \/ e.t = "na" THEN "na"
  ELSE IF e.t = "empty" THEN "empty"
  ELSE IF SecretVisible(acl) THEN "secret" ELSE "hidden"

(* ------------------------------------------------------------------------------------ *)
(* Reference filter: output in the projected form the harness records:                   *)
(*   group  [key, hd ("kept" "nil" "na"), items: Seq([lab, tok, subs: Seq(Seq(lab))])]    *)
(* ------------------------------------------------------------------------------------ *)
LabsOf(items) == [i \in DOMAIN items |-> items[i].lab]

OutEl(kind, acl, e) ==
  [lab |-> e.lab, tok |-> TokOut(kind, acl, e),
   subs |-> [k \in DOMAIN e.subs |-> LabsOf(SelectSeq(e.subs[k], LAMBDA lf : Readable(SubRules(kind)[k], acl, lf)))]]

HeadGone(kind, g) == Headed(kind) /\ g.hd \in {"no", "nil"}

RefItems(kind, acl, g) ==
  LET rule == Rule(kind, g.key) IN
  IF HeadGone(kind, g) THEN <<>>
  ELSE IF rule = "match" THEN (IF \E i \in DOMAIN g.items : g.items[i].x = "no" THEN <<>> ELSE g.items)   \* IntentionMatchAllOrNothing
  ELSE SelectSeq(g.items, LAMBDA e : Readable(rule, acl, e))

RefGroup(kind, acl, g) ==
  [key |-> g.key,
   hd |-> IF ~Headed(kind) THEN "na" ELSE IF g.hd = "ok" THEN "kept" ELSE "nil",
   items |-> LET it == RefItems(kind, acl, g) IN [i \in DOMAIN it |-> OutEl(kind, acl, it[i])]]

RefOut(kind, acl, groups) == [i \in DOMAIN groups |-> RefGroup(kind, acl, groups[i])]

(* ------------------------------------------------------------------------------------ *)
(* What was removed (judged on the RECORDED output, so that FlagExact is independent of  *)
(* the other three predicates)                                                           *)
(* ------------------------------------------------------------------------------------ *)
EmptyOutG(key) == [key |-> key, hd |-> "na", items |-> <<>>]
HasG(out, key) == \E i \in DOMAIN out : out[i].key = key
GetG(out, key) == IF HasG(out, key) THEN out[CHOOSE i \in DOMAIN out : out[i].key = key] ELSE EmptyOutG(key)

HasLab(items, L) == \E i \in DOMAIN items : items[i].lab = L
ByLab(items, L) == items[CHOOSE i \in DOMAIN items : items[i].lab = L]

LeafCount(it) == IF DOMAIN it.subs = {} THEN 0 ELSE Len(it.subs[1]) + Len(it.subs[2])
RECURSIVE SumLeaves(_)
SumLeaves(items) == IF items = <<>> THEN 0 ELSE LeafCount(Head(items)) + SumLeaves(Tail(items))

\* elements, leaves or the head node disappeared
RemovedIn(kind, g, og) ==
  \/ Len(og.items) < Len(g.items)
  \/ Headed(kind) /\ g.hd \in {"ok", "no"} /\ og.hd # "kept"
  \/ \E j \in DOMAIN og.items : HasLab(g.items, og.items[j].lab) /\ DOMAIN og.items[j].subs # {}
        /\ LeafCount(og.items[j]) < LeafCount(ByLab(g.items, og.items[j].lab))
Removed(kind, in, out) == \E i \in DOMAIN in : RemovedIn(kind, in[i], GetG(out, in[i].key))

\* UnnamedPreparedQueryDroppedSilently: a removal that the flag may but need not report
SilentOnly(kind, acl, in, out) ==
  /\ kind = "IndexedPreparedQueries"
  /\ \A i \in DOMAIN in :
       LET og == GetG(out, in[i].key) IN
       \A j \in DOMAIN in[i].items :
          (in[i].items[j].x # "unnamed") => Count(LabsOf(og.items), in[i].items[j].lab) >= Count(LabsOf(in[i].items), in[i].items[j].lab)

(* ------------------------------------------------------------------------------------ *)
(* The property, as predicates over one (input, output, flag) triple                     *)
(* ------------------------------------------------------------------------------------ *)
SeqJudge(inItems, okf(_), outLabs, ordered) ==
  LET inL  == LabsOf(inItems)
      good == {inItems[i].lab : i \in {j \in DOMAIN inItems : okf(inItems[j])}}
      expL == LabsOf(SelectSeq(inItems, okf))
  IN     F("NothingUnreadable", \A j \in DOMAIN outLabs : outLabs[j] \in good)
    \cup F("NothingDropped", \A L \in good : Count(outLabs, L) >= Count(expL, L))
    \cup F("OrderPreserved", (~ordered) \/ IsSubSeq(outLabs, inL))

GroupJudge(kind, acl, g, og) ==
  LET rule == Rule(kind, g.key)
      outL == LabsOf(og.items)
      gone == HeadGone(kind, g)
      anyNo == \E i \in DOMAIN g.items : g.items[i].x = "no"
  IN
  (IF rule = "match"
     THEN    F("NothingUnreadable", anyNo => outL = <<>>)
        \cup F("NothingDropped", anyNo \/ outL = LabsOf(g.items))
     ELSE SeqJudge(g.items, LAMBDA e : (~gone) /\ Readable(rule, acl, e), outL, Ordered(kind)))
  \cup F("NothingUnreadable", Headed(kind) => (og.hd = "kept" => g.hd = "ok"))
  \cup F("NothingDropped", Headed(kind) => (g.hd = "ok" => og.hd = "kept"))
  \* secrets
  \cup F("NothingUnreadable", \A j \in DOMAIN og.items : og.items[j].tok = "secret" => SecretVisible(acl))
  \* leaves of surviving elements
  \cup UNION { LET oe == og.items[j] IN
               IF DOMAIN oe.subs = {} \/ ~HasLab(g.items, oe.lab) THEN {}
               ELSE LET ie == ByLab(g.items, oe.lab) IN
                    UNION { SeqJudge(ie.subs[k], LAMBDA lf : Readable(SubRules(kind)[k], acl, lf), oe.subs[k], TRUE) : k \in DOMAIN oe.subs }
             : j \in DOMAIN og.items }

(* The flag on ENTRY.  A reply object is re-used: blockingquery.Query runs the endpoint's query function  *)
(* again and again against the SAME reply (payload re-populated, QueryMeta kept) and filters it after     *)
(* every run, so `prior` - the value ResultsFilteredByACLs has when Filter is entered - may be "yes".       *)
(* The specified flag on exit is a function of this evaluation's removal alone, WHATEVER the prior value. *)
(*   FlagExact     the flag contradicts what this evaluation removed, and the prior value does not       *)
(*                 explain it                                                                             *)
(*   FlagNotStale  nothing was removed by this evaluation, yet the flag is "yes" because it already was   *)
(*                 on entry (raise-only assignment: `if removed { flag = true }`)                         *)
FlagOK(kind, acl, in, out, prior, flag) ==
  IF ~HasFlag(kind) THEN TRUE
  ELSE IF Removed(kind, in, out) THEN (flag = "yes" \/ SilentOnly(kind, acl, in, out))
  ELSE flag = "no"
FlagStale(kind, acl, in, out, prior, flag) ==
  HasFlag(kind) /\ ~Removed(kind, in, out) /\ prior = "yes" /\ flag = "yes"

\* the two assignment styles found in the type switch, as functions of (prior, removed)
FlagAssigned(prior, removed)  == removed                   \* v.ResultsFilteredByACLs = f.filterX(...)
FlagRaiseOnly(prior, removed) == prior \/ removed          \* if f.filterX(...) { v.ResultsFilteredByACLs = true }  - stale on re-evaluation

Judge(kind, acl, in, out, prior, flag) ==
       UNION { GroupJudge(kind, acl, in[i], GetG(out, in[i].key)) : i \in DOMAIN in }
  \cup F("NothingUnreadable", \A j \in DOMAIN out : \E i \in DOMAIN in : in[i].key = out[j].key)   \* no invented group
  \cup F("NothingDropped", \A i \in DOMAIN in : HasG(out, in[i].key) \/ kind \in DynKinds)          \* statement silent on empty map entries
  \cup (IF FlagStale(kind, acl, in, out, prior, flag) THEN {"FlagNotStale"}
        ELSE F("FlagExact", FlagOK(kind, acl, in, out, prior, flag)))

RefFlag(kind, acl, in) ==
  IF ~HasFlag(kind) THEN "na"
  ELSE LET out == RefOut(kind, acl, in) IN
       IF Removed(kind, in, out) /\ ~SilentOnly(kind, acl, in, out) THEN "yes" ELSE "no"

(* ------------------------------------------------------------------------------------ *)
(* The loops of the code, transcribed.  a = sequence of [e, k] (k: keep?)                *)
(* ------------------------------------------------------------------------------------ *)
Ann(items, okf(_)) == [i \in DOMAIN items |-> [e |-> items[i], k |-> okf(items[i])]]
Strip(a) == [i \in DOMAIN a |-> a[i].e]

\* filterHealthChecks / filterServiceNodes / filterNodeServiceList / filterCheckServiceNodes / filterSessions /
\* filterCoordinates / filterNodeDump / filterServiceDump / filterNodes:
\*   for i := 0; i < len(s); i++ { if keep { continue }; removed = true; s = append(s[:i], s[i+1:]...); i-- }
RECURSIVE SpliceLoop(_, _, _)
SpliceLoop(a, i, removed) ==
  IF i > Len(a) THEN [s |-> Strip(a), removed |-> removed]
  ELSE IF a[i].k THEN SpliceLoop(a, i + 1, removed)
  ELSE SpliceLoop(SubSeq(a, 1, i - 1) \o SubSeq(a, i + 1, Len(a)), i, TRUE)

\* filterIntentions / filterPreparedQueries / filterTokens / filterPolicies / ... / filterServiceList / filterGatewayServices:
\*   ret := make(T, 0, len(s)); for _, x := range s { if !keep { removed = true; continue }; ret = append(ret, x) }
RECURSIVE CollectLoop(_, _, _, _)
CollectLoop(a, i, ret, removed) ==
  IF i > Len(a) THEN [s |-> ret, removed |-> removed]
  ELSE IF a[i].k THEN CollectLoop(a, i + 1, Append(ret, a[i].e), removed)
  ELSE CollectLoop(a, i + 1, ret, TRUE)

\* agent/consul/filter.go FilterEntries (0-based dst/src/end as in the code; a is 1-based)
RECURSIVE SkipDropped(_, _), SkipKept(_, _), CompactLoop(_, _, _)
SkipDropped(a, src) == IF src < Len(a) /\ ~a[src + 1].k THEN SkipDropped(a, src + 1) ELSE src      \* for src < n && f.Filter(src) { src++ }
SkipKept(a, end)    == IF end < Len(a) /\ a[end + 1].k THEN SkipKept(a, end + 1) ELSE end          \* for end < n && !f.Filter(end) { end++ }
MoveSpan(a, dst, src, span) ==                                                                     \* copy(ent[dst:dst+span], ent[src:src+span])
  [i \in DOMAIN a |-> IF i - 1 >= dst /\ i - 1 < dst + span THEN a[src + (i - 1 - dst) + 1] ELSE a[i]]
CompactLoop(a, dst, src) ==
  IF ~(dst < Len(a)) THEN [a |-> a, n |-> dst]
  ELSE LET s2 == SkipDropped(a, src) IN
       IF s2 = Len(a) THEN [a |-> a, n |-> dst]
       ELSE LET end == SkipKept(a, s2 + 1)
                span == end - s2
            IN IF span > 0 THEN CompactLoop(MoveSpan(a, dst, s2, span), dst + span, s2 + span)
               ELSE CompactLoop(a, dst, s2)
Compact(a) == LET r == CompactLoop(a, 0, 0) IN Strip(SubSeq(r.a, 1, r.n))

\* every loop yields exactly the kept elements in order, and `removed` exactly when the result is shorter
LoopsRefine(items, okf(_)) ==
  LET a == Ann(items, okf)
      want == SelectSeq(items, okf)
      sp == SpliceLoop(a, 1, FALSE)
      co == CollectLoop(a, 1, <<>>, FALSE)
  IN /\ sp.s = want /\ sp.removed = (Len(want) < Len(items))
     /\ co.s = want /\ co.removed = (Len(want) < Len(items))
     /\ Compact(a) = want

\* IndexedExportedServiceList.  The property-conforming flag is the disjunction over the map entries.
\* The code assigns `v.ResultsFilteredByACLs = f.filterServiceList(&peerServices)` INSIDE the map range,
\* i.e. it reports the entry visited last (ExportedFlagAsCoded) - finding C09-exported-flag.
ExportedFlagConforming(groupRemoved) == \E i \in DOMAIN groupRemoved : groupRemoved[i]
ExportedFlagAsCoded(groupRemoved, visitOrder) ==
  IF visitOrder = <<>> THEN FALSE ELSE groupRemoved[visitOrder[Len(visitOrder)]]

\* agent/consul/rpc.go maskResultsFilteredByACLs (post-step of every blocking query; modelled, not bound)
Mask(flag, caller) == IF caller \in {"none", "anonymous", "unresolvable"} THEN "no" ELSE flag

(***************************************************************************************)
(* Part 2 - token expiry (agent/consul/acl.go ACLResolver)                             *)
(*   cfg.mode  "local"  backend.ResolveIdentityFromToken answers from the state store  *)
(*                      (server with the token table); nothing is cached               *)
(*             "remote" identity comes from RPC ACL.TokenRead and is kept in the       *)
(*                      identity cache for cfg.ttl                                     *)
(*   cfg.down  ACLDownPolicy used when the RPC fails                                   *)
(*   ph    "before" / "after" the token's ExpirationTime                                *)
(*   store "has" / "gone" (reaped or deleted)   idc "none"/"warm"   rpc "up"/"down"     *)
(***************************************************************************************)
ExCfgs == {[mode |-> "local", ttl |-> "long", down |-> "extend-cache"]}
     \cup {[mode |-> "remote", ttl |-> t, down |-> d] : t \in {"long", "zero"}, d \in {"extend-cache", "async-cache", "deny"}}

ExInit(cfg) == [cfg |-> cfg, ph |-> "before", store |-> "has", idc |-> "none", rpc |-> "up"]

\* resolveIdentityFromToken + fetchAndCacheIdentityFromToken: [id: "token"/"none"/"rpcerr", idc]
ExIdentity(s) ==
  IF s.cfg.mode = "local" THEN [id |-> IF s.store = "has" THEN "token" ELSE "none", idc |-> s.idc]
  ELSE IF s.idc = "warm" /\ s.cfg.ttl = "long" THEN [id |-> "token", idc |-> "warm"]                 \* cache hit
  ELSE IF s.rpc = "up" THEN (IF s.store = "has" THEN [id |-> "token", idc |-> "warm"]
                             ELSE [id |-> IF s.idc = "warm" /\ s.cfg.down = "async-cache" THEN "token" ELSE "none", idc |-> "none"])
  ELSE IF s.idc = "warm" /\ s.cfg.down \in {"extend-cache", "async-cache"} THEN [id |-> "token", idc |-> "warm"]   \* extend the cache
  ELSE [id |-> "rpcerr", idc |-> "none"]

\* resolveTokenToIdentityAndPolicies: `else if identity.IsExpired(time.Now()) { return nil, nil, acl.ErrNotFound }`
\* an RPC error ends in the down-policy authorizer, which with default-deny authorizes nothing
ExResolve(s) ==
  LET r == ExIdentity(s) IN
  [hon |-> IF r.id = "token" /\ s.ph = "before" THEN "yes" ELSE "no",
   st  |-> [s EXCEPT !.idc = r.idc]]

ExOps == {[op |-> "resolve", api |-> a] : a \in {"token", "meta"}}
    \cup {[op |-> "expire", api |-> ""], [op |-> "reap", api |-> ""], [op |-> "rpcdown", api |-> ""], [op |-> "rpcup", api |-> ""]}

ExApply(s, c) ==
  CASE c.op = "resolve" -> ExResolve(s).st
    [] c.op = "expire"  -> [s EXCEPT !.ph = "after"]
    [] c.op = "reap"    -> [s EXCEPT !.store = "gone"]      \* reaper on the leader; another agent's identity cache is untouched
    [] c.op = "rpcdown" -> [s EXCEPT !.rpc = "down"]
    [] OTHER            -> [s EXCEPT !.rpc = "up"]

ExEnabled(s, c) ==
  CASE c.op = "expire"  -> s.ph = "before"
    [] c.op = "reap"    -> s.store = "has"
    [] c.op = "rpcdown" -> s.rpc = "up" /\ s.cfg.mode = "remote"
    [] c.op = "rpcup"   -> s.rpc = "down"
    [] OTHER            -> TRUE

\* the property: whatever the cache / store / RPC state, a resolution after the expiration time authorizes nothing
ExpiredNeverHonoured(s) == s.ph = "after" => ExResolve(s).hon = "no"
\* non-vacuity companion: an unexpired, stored, reachable token is honoured
ValidHonoured(s) == (s.ph = "before" /\ s.store = "has" /\ s.rpc = "up") => ExResolve(s).hon = "yes"
=============================================================================
