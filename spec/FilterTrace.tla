----------------------------- MODULE FilterTrace -----------------------------
(* Trace validation for C09 (DESIGN.md 2.2).  trace.ndjson holds events recorded from the REAL  *)
(* code by harness/cmd/h-filter:                                                                 *)
(*   t = "filter": [kind, acl, in, prior, out, flag]   (prior: ResultsFilteredByACLs on entry) one run of aclfilter.Filter / FilterDirEnt /      *)
(*        FilterTxnResults on a concrete response; `in` carries, per element, the readability     *)
(*        facts read off the real authorizer and the label under which it is projected; `out`     *)
(*        the labels that survived, in order, and `flag` ResultsFilteredByACLs.                   *)
(*   t = "expiry": [cfg, cmd, phase, pre, res]  one operation against the real ACLResolver for a  *)
(*        token with an expiration time; phase = before / after / ambiguous (process clock).      *)
(* Each event is judged locally with the operators of Filter.tla; failed predicates are printed   *)
(* as <<"REJECT", line, {names}>> and the event is still consumed.                                *)
EXTENDS Filter, Json

Trace == ndJsonDeserialize("trace.ndjson")
VARIABLE l

FilterVerdict(e) ==
  IF e.kind \notin AllKinds THEN {"unknown-kind"}
  ELSE Judge(e.kind, e.acl, e.in, e.out, e.prior, e.flag)

\* the implementation's own state before the step (store row, reachability) and the clock phase are recorded facts
ExpiryVerdict(e) ==
  IF e.cmd.op # "resolve" THEN {}
  ELSE   F("ExpiredNeverHonoured", e.phase = "after" => e.res.allows = "no")
    \cup F("ValidHonoured", (e.phase = "before" /\ e.pre.store = "has" /\ e.pre.rpc = "up") => e.res.allows = "yes")

Verdict(i) ==
  LET e == Trace[i] IN
  CASE e.t = "filter" -> FilterVerdict(e)
    [] e.t = "expiry" -> ExpiryVerdict(e)
    [] OTHER -> {"unknown-event"}

Init == l = 1
Next == /\ l <= Len(Trace)
        /\ LET v == Verdict(l) IN IF v = {} THEN TRUE ELSE PrintT(<<"REJECT", l, v>>)
        /\ l' = l + 1
Spec == Init /\ [][Next]_l
=============================================================================
