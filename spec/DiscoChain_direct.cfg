SPECIFICATION Spec
CONSTANTS
  Profile = "core"
  MaxEntries = 3
  Scope = "direct"
  WithTcp = FALSE
VIEW View
INVARIANTS InvStoredSetsAlwaysCompile
CHECK_DEADLOCK FALSE
