SPECIFICATION Spec
CONSTANTS
  Profile = "core"
  MaxEntries = 4
  Scope = "direct"
  WithTcp = FALSE
VIEW View
INVARIANTS InvStoredSetsAlwaysCompile
CHECK_DEADLOCK FALSE
