------------------------------ MODULE CatIndex ------------------------------
(***************************************************************************)
(* The catalog's INDEX RULES (agent/consul/state/catalog.go, catalog_ce.go) *)
(* behind property C06 for the catalog / health endpoint families.           *)
(*                                                                           *)
(* Write side: which rows of the index table every critical section of the   *)
(* catalog moves (catalogInsertNode, catalogInsertService, ensureCheckTxn,   *)
(* deleteCheckTxn, deleteServiceTxn, deleteNodeTxn,                          *)
(* updateAllServiceIndexesOfNode, the per-service row "service.<name>" with  *)
(* its garbage collection and the "service_last_extinction" /               *)
(* "node_last_extinction" rows).                                             *)
(* Read side: which rows every read reports (catalogNodesMaxIndex,           *)
(* maxIndexForService with its fall-backs, catalogNodeMaxIndex, the checks   *)
(* table index) together with the RESULT of the read.                        *)
(*                                                                           *)
(* Same functional style as Store.tla: Apply(c, i, cmd) = [st, err].         *)
(*   c.nodes  set of [name, addr]                                            *)
(*   c.svcs   set of [node, id, name, port]      (typical services)          *)
(*   c.chks   set of [node, id, svc, sname, status, out]  sname = the check's *)
(*            COPY of the service name (HealthCheck.ServiceName), out = its   *)
(*            output (a field that changes without the status changing)      *)
(*   c.tix    [row name -> index]; an absent row is not in the domain        *)
(*            (rows of the local peer: the code's "peer.~:<row>")            *)
(* TLC checks on this model (CatIndexMC) that no read misses a change and    *)
(* that no reported index decreases - for every history up to the bound.     *)
(* The model is bound to the code by CatIndexTrace: every recorded step of   *)
(* the real state store must move the index rows and report read indexes     *)
(* exactly as written here (conformance), and every TLC-generated behaviour  *)
(* is replayed into the real store with the reads observed around it.        *)
(***************************************************************************)
EXTENDS Integers, Sequences, FiniteSets, TLC

Init0 == [nodes |-> {}, svcs |-> {}, chks |-> {}, tix |-> <<>>]

---------------------------------------------------------------------------
(* index table : state_store.go indexUpdateMaxTxn / maxIndexTxn *)
Has(c, n) == n \in DOMAIN c.tix
Tx(c, n)  == IF Has(c, n) THEN c.tix[n] ELSE 0
\* indexUpdateMaxTxn for a set of rows: a row moves only upwards; a missing row is created
BumpSet(c, i, S) ==
  [c EXCEPT !.tix = [x \in (DOMAIN c.tix) \cup S |->
                       IF x \in S THEN (IF Has(c, x) /\ c.tix[x] >= i THEN c.tix[x] ELSE i) ELSE c.tix[x]]]
Bump(c, i, n) == BumpSet(c, i, {n})
Drop(c, n) == [c EXCEPT !.tix = [x \in (DOMAIN c.tix) \ {n} |-> c.tix[x]]]
Max2(a, b) == IF a >= b THEN a ELSE b

SvcRow(name) == "service." \o name
NodeRow(name) == "node." \o name
KindRow == "service_kind.typical"
SvcExt == "service_last_extinction"
NodeExt == "node_last_extinction"

NodeHas(c, n) == \E x \in c.nodes : x.name = n
NodeGet(c, n) == CHOOSE x \in c.nodes : x.name = n
SvcHas(c, n, id) == \E s \in c.svcs : s.node = n /\ s.id = id
SvcGet(c, n, id) == CHOOSE s \in c.svcs : s.node = n /\ s.id = id
ChkHas(c, n, id) == \E k \in c.chks : k.node = n /\ k.id = id
ChkGet(c, n, id) == CHOOSE k \in c.chks : k.node = n /\ k.id = id

---------------------------------------------------------------------------
(* write side *)

\* updateAllServiceIndexesOfNode: node-level information is part of every health result of the node's services
TouchServicesOfNode(c, i, n) ==
  LET on == {s \in c.svcs : s.node = n} IN
  IF on = {} THEN c ELSE BumpSet(c, i, {SvcRow(s.name) : s \in on} \cup {KindRow})

\* ensureNodeTxn + catalogInsertNode (identity by name only; no node IDs in this model)
EnsureNode(c, i, n, addr) ==
  IF NodeHas(c, n) /\ NodeGet(c, n).addr = addr THEN c
  ELSE LET c1 == [c EXCEPT !.nodes = {x \in @ : x.name # n} \cup {[name |-> n, addr |-> addr]}]
       IN TouchServicesOfNode(BumpSet(c1, i, {"nodes", NodeRow(n)}), i, n)

\* the per-service row of a name that may just have lost its last instance: bumped while instances remain, otherwise
\* garbage-collected and the extinction row moved (deleteServiceTxn; ensureServiceTxn for a re-named instance)
RetireOrBump(c, i, name) ==
  IF \E s \in c.svcs : s.name = name THEN Bump(c, i, SvcRow(name))
  ELSE Bump(Drop(c, SvcRow(name)), i, SvcExt)

\* ensureServiceTxn + catalogInsertService + refreshServiceCheckCopiesTxn
EnsureService(c, i, n, id, name, port) ==
  LET row == [node |-> n, id |-> id, name |-> name, port |-> port] IN
  IF row \in c.svcs THEN c
  ELSE LET had  == SvcHas(c, n, id)
           old  == SvcGet(c, n, id)
           c1   == [c EXCEPT !.svcs = {s \in @ : ~(s.node = n /\ s.id = id)} \cup {row}]
           c2   == BumpSet(c1, i, {"services", SvcRow(name), KindRow, "nodes", NodeRow(n)})
           stale == {k \in c2.chks : k.node = n /\ k.svc = id /\ k.sname # name}
           c3   == IF had /\ old.name # name /\ stale # {}
                   THEN Bump([c2 EXCEPT !.chks = (@ \ stale) \cup {[k EXCEPT !.sname = name] : k \in stale}], i, "checks")
                   ELSE c2
       IN IF had /\ old.name # name THEN RetireOrBump(c3, i, old.name) ELSE c3

\* ensureCheckTxn ; [st, err]
EnsureCheck(c, i, n, id, svc, status, out) ==
  IF ~NodeHas(c, n) \/ (svc # "" /\ ~SvcHas(c, n, svc)) THEN [st |-> c, err |-> TRUE]
  ELSE LET sname == IF svc = "" THEN "" ELSE SvcGet(c, n, svc).name
           row == [node |-> n, id |-> id, svc |-> svc, sname |-> sname, status |-> status, out |-> out]
       IN IF row \in c.chks THEN [st |-> c, err |-> FALSE]
          ELSE LET c1 == IF svc # "" THEN BumpSet(c, i, {SvcRow(sname), KindRow}) ELSE TouchServicesOfNode(c, i, n)
                   c2 == [c1 EXCEPT !.chks = {k \in @ : ~(k.node = n /\ k.id = id)} \cup {row}]
               IN [st |-> Bump(c2, i, "checks"), err |-> FALSE]

\* deleteCheckTxn : a service check moves the row of the name the CHECK carries
DeleteCheck(c, i, n, id) ==
  IF ~ChkHas(c, n, id) THEN c
  ELSE LET k  == ChkGet(c, n, id)
           c1 == IF k.svc # "" THEN BumpSet(c, i, {SvcRow(k.sname), KindRow})
                 ELSE Bump(TouchServicesOfNode(c, i, n), i, "services")
       IN Bump([c1 EXCEPT !.chks = @ \ {k}], i, "checks")

RECURSIVE DeleteChecks(_, _, _)
DeleteChecks(c, i, ks) ==
  IF ks = {} THEN c
  ELSE LET k == CHOOSE x \in ks : TRUE IN DeleteChecks(DeleteCheck(c, i, k.node, k.id), i, ks \ {k})

\* deleteServiceTxn
DeleteService(c, i, n, id) ==
  IF ~SvcHas(c, n, id) THEN c
  ELSE LET s  == SvcGet(c, n, id)
           c1 == Bump(DeleteChecks(c, i, {k \in c.chks : k.node = n /\ k.svc = id}), i, "checks")
           c2 == [c1 EXCEPT !.svcs = @ \ {s}]
           c3 == BumpSet(c2, i, {"services", KindRow, "nodes", NodeRow(n)})
       IN RetireOrBump(c3, i, s.name)

RECURSIVE DeleteServices(_, _, _)
DeleteServices(c, i, ss) ==
  IF ss = {} THEN c
  ELSE LET s == CHOOSE x \in ss : TRUE IN DeleteServices(DeleteService(c, i, s.node, s.id), i, ss \ {s})

\* deleteNodeTxn (coordinates and sessions are Store.tla's business)
DeleteNode(c, i, n) ==
  IF ~NodeHas(c, n) THEN c
  ELSE LET on == {s \in c.svcs : s.node = n}
           c1 == IF on = {} THEN c ELSE BumpSet(c, i, {SvcRow(s.name) : s \in on} \cup {KindRow})
           c2 == DeleteServices(c1, i, on)
           c3 == DeleteChecks(c2, i, {k \in c2.chks : k.node = n})
           c4 == [c3 EXCEPT !.nodes = {x \in @ : x.name # n}]
       IN Bump(Drop(Bump(c4, i, "nodes"), NodeRow(n)), i, NodeExt)

\* ensureRegistrationTxn: node (when new or changed), optional service (when new or changed), optional check.
\* An error anywhere aborts the memdb transaction: nothing changes.
Register(c, i, m) ==
  LET c1 == EnsureNode(c, i, m.node, m.addr)
      c2 == IF m.hassvc THEN EnsureService(c1, i, m.node, m.sid, m.sname, m.port) ELSE c1
      r3 == IF m.haschk THEN EnsureCheck(c2, i, m.node, m.cid, m.csvc, m.cstatus, m.cout) ELSE [st |-> c2, err |-> FALSE]
  IN IF r3.err THEN [st |-> c, err |-> TRUE] ELSE r3

Deregister(c, i, m) ==
  [st |-> IF m.sid # "" THEN DeleteService(c, i, m.node, m.sid)
          ELSE IF m.cid # "" THEN DeleteCheck(c, i, m.node, m.cid)
          ELSE DeleteNode(c, i, m.node),
   err |-> FALSE]

Apply(c, i, m) == IF m.t = "creg" THEN Register(c, i, m) ELSE Deregister(c, i, m)

---------------------------------------------------------------------------
(* read side : [res, idx] per read.  res is the part of the reply that a client sees. *)

Addr(c, n) == IF NodeHas(c, n) THEN NodeGet(c, n).addr ELSE ""
\* catalogMaxIndex
CatMax(c, checks) == LET m == Max2(Tx(c, "services"), Tx(c, "nodes")) IN IF checks THEN Max2(m, Tx(c, "checks")) ELSE m
\* maxIndexAndWatchChForService
SvcIdx(c, name, exists, checks) ==
  IF ~exists /\ Has(c, SvcExt) THEN Tx(c, SvcExt)
  ELSE IF Has(c, SvcRow(name)) THEN Tx(c, SvcRow(name))
  ELSE CatMax(c, checks)

Read(c, q) ==
  CASE q.q = "nodes" -> [res |-> c.nodes, idx |-> Tx(c, "nodes")]
    [] q.q = "services" -> [res |-> {s.name : s \in c.svcs}, idx |-> Tx(c, "services")]
    \* Store.ServiceNodes: instances of the name, each with its node's address
    [] q.q = "service-nodes" ->
         LET r == {[s |-> s, addr |-> Addr(c, s.node)] : s \in {s \in c.svcs : s.name = q.name}}
         IN [res |-> r, idx |-> SvcIdx(c, q.name, r # {}, FALSE)]
    \* Store.CheckServiceNodes: instance + node + the node-level checks of its node + its own checks
    [] q.q = "health" ->
         LET r == {[s |-> s, addr |-> Addr(c, s.node),
                    chks |-> {k \in c.chks : k.node = s.node /\ (k.svc = "" \/ k.svc = s.id)}]
                     : s \in {s \in c.svcs : s.name = q.name}}
         IN [res |-> r, idx |-> SvcIdx(c, q.name, r # {}, TRUE)]
    \* Store.NodeServices
    [] q.q = "node-services" ->
         IF NodeHas(c, q.node) THEN [res |-> [node |-> NodeGet(c, q.node), svcs |-> {s \in c.svcs : s.node = q.node}],
                                     idx |-> Tx(c, NodeRow(q.node))]
         ELSE [res |-> [node |-> [name |-> "", addr |-> ""], svcs |-> {}], idx |-> Tx(c, NodeExt)]
    [] q.q = "node-checks" -> [res |-> {k \in c.chks : k.node = q.node}, idx |-> Tx(c, "checks")]
    [] q.q = "service-checks" -> [res |-> {k \in c.chks : k.sname = q.name}, idx |-> Tx(c, "checks")]
    [] q.q = "checks-in-state" -> [res |-> {k \in c.chks : q.status = "any" \/ k.status = q.status}, idx |-> Tx(c, "checks")]

\* agent/blockingquery: an index below 1 is reported as 1
Norm(i) == IF i < 1 THEN 1 ELSE i

(* property C06 on the model, per read *)
NoMissedChange(c, d, q) == Read(c, q).res # Read(d, q).res => Norm(Read(d, q).idx) > Norm(Read(c, q).idx)
Monotone(c, d, q) == Norm(Read(d, q).idx) >= Norm(Read(c, q).idx)

(* structural invariants of the index table itself *)
\* a per-service row exists exactly for the names that have instances; a per-node row exactly for the nodes
RowsLive(c) == /\ \A s \in c.svcs : Has(c, SvcRow(s.name))
               /\ \A n \in c.nodes : Has(c, NodeRow(n.name))
CopiesCurrent(c) == \A k \in c.chks : k.svc # "" => SvcHas(c, k.node, k.svc) /\ SvcGet(c, k.node, k.svc).name = k.sname
=============================================================================
