----------------------------- MODULE ArchiveMC -----------------------------
(* Bounded instance of Archive: every fault sequence of length <= MaxFaults    *)
(* over the region map of a valid archive, plain and gzip-wrapped.             *)
(*   Archive_mc.cfg   exhaustive check of the class/reader invariants (VIEW    *)
(*                    hides the fault history)                                 *)
(*   Archive_gen.cfg  history mode: every distinct fault sequence is printed   *)
(*                    once as a scenario for the Go harness                    *)
EXTENDS Archive, TLC, Json

CONSTANTS MaxFaults,      \* <= 2 in generation
          Tracks,         \* TRUE: reader that requires every member to be seen (archive.go since the fix) ; FALSE: before
          Empties         \* {FALSE} or BOOLEAN : is the state payload empty

VARIABLES a, hist

Init == /\ \E w \in {"plain", "gz"}, e \in Empties : a = Valid(w, e)      \* meta.json listed first; ArchiveTrace takes the order from the archive
        /\ hist = <<>>
Next == /\ Len(hist) < MaxFaults
        /\ \E f \in Faults(a) : a' = Apply(a, f) /\ hist' = Append(hist, f)
vars == <<a, hist>>
Spec == Init /\ [][Next]_vars

View == <<a, Len(hist)>>      \* the depth is part of the view: Next is bounded by Len(hist), and with several workers BFS is not strict
Scenario(h) == [wrap |-> a.wrap, faults |-> h, class |-> Class(a'), reasons |-> Reasons(a')]
Emit == PrintT(<<"TRACE", ToJson(Scenario(hist'))>>)
EmitProp == [][Emit]_vars

InvClassMC == InvClass(a, Tracks)
InvAcceptedSameMC == InvAcceptedSame(a, Tracks)
InvNotHandedToRestoreMC == InvNotHandedToRestore(a, Tracks)
\* the history replayed through Apply gives the state (Apply/ApplyAll/Applicable agree with Next)
InvReplay == /\ Applicable(Valid(a.wrap, a.empty), hist)
             /\ ApplyAll(Valid(a.wrap, a.empty), hist) = a
\* every class is inhabited and the classes are what the statement says for the single faults
InvNoFaultAccepted == hist = <<>> => Class(a) = "MustAcceptSame"
=============================================================================
