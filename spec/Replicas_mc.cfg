SPECIFICATION RSpec
CONSTANTS
  Profile = "kv"
  MaxDepth = 9
  Replica = {"A", "B"}
  MaxLog = 2
INVARIANT Agree
CHECK_DEADLOCK FALSE
