SPECIFICATION RSpec
CONSTANTS
  Profile = "kv"
  MaxDepth = 9
  Replica = {"A", "B"}
  MaxLog = 2
INVARIANTS Agree SnapIsCut
CHECK_DEADLOCK FALSE
