------------------------------ MODULE Intentions ------------------------------
(* Service intentions (C13, base of C14): which source may connect to which     *)
(* destination.  Community-edition shape: one namespace/partition, so a side of *)
(* an intention is an exact service name or the wildcard "*"; a source may in   *)
(* addition be qualified by a cluster peer.                                     *)
(*                                                                              *)
(*   intention  i == [src, peer, dst, act]   src,dst \in Names \cup {"*"}        *)
(*                                           peer = "" (local) or a peer name    *)
(*                                           act \in {"allow","deny","l7"}       *)
(*   ("l7" = the intention carries a permission list instead of an action; the  *)
(*    list itself is only looked at by RBAC.tla.  Modules that extend this one   *)
(*    may add more fields; the operators below read only the four above.)        *)
(*                                                                              *)
(* The STATE is the set I of intentions, whatever the representation (legacy    *)
(* connect-intentions table rows, or sources of service-intentions config        *)
(* entries keyed by destination) and whatever the order of the writes.           *)
EXTENDS Integers, Sequences, FiniteSets, TLC

WILD  == "*"
NOPEER == ""

\* unique name of an intention: agent/consul/state/intention.go "source_destination" index (legacy);
\* ServiceIntentionsConfigEntry.validate "defines %q more than once" per entry = destination (config entries)
Key(i) == <<i.src, i.peer, i.dst>>
KeysUnique(I) == \A i, j \in I : Key(i) = Key(j) => i = j

\* agent/structs/intention.go UpdatePrecedence / config_entry_intentions.go computeIntentionPrecedence.
\* CE: the namespace is always exact, countExact(side) = 2 for a name, 1 for "*":
\*   dst exact -> max 9, dst "*" -> max 6 ; minus (2 - countExact(src)).   9 / 8 / 6 / 5.
\* Destination specificity weighs more than source specificity.
Prec(i) == (IF i.dst # WILD THEN 9 ELSE 6) - (IF i.src # WILD THEN 0 ELSE 1)

\* agent/connect/authz.go IntentionMatch: a caller is s == [name, peer]
SrcMatches(i, s) == i.peer = s.peer /\ (i.src = WILD \/ i.src = s.name)
DstMatches(i, d) == i.dst = WILD \/ i.dst = d
Matches(i, s, d) == SrcMatches(i, s) /\ DstMatches(i, d)
Matching(I, s, d) == {i \in I : Matches(i, s, d)}

\* Two different intentions that match the same pair never have the same precedence, so "the most
\* specific matching intention" is well defined (checked as a TLC invariant, not assumed).
NoAmbiguousTie(I, Callers, Dests) ==
  \A s \in Callers, d \in Dests : \A i, j \in Matching(I, s, d) : i # j => Prec(i) # Prec(j)

Top(S) == CHOOSE i \in S : \A j \in S : Prec(j) <= Prec(i)

\* THE PROPERTY's decision function: the single most specific matching intention decides, else the default.
\* At connection level (no request) an intention with permissions counts as deny unless the caller asks
\* for "allowPermissions" (state/intention.go IntentionDecision; Intention.Check passes false).
Summary(I, s, d, default, allowPerms) ==
  LET M == Matching(I, s, d) IN
  IF M = {} THEN [allowed |-> default = "allow", perms |-> FALSE, exact |-> FALSE]
  ELSE LET t == Top(M) IN
       [allowed |-> IF t.act = "l7" THEN allowPerms ELSE t.act = "allow",
        perms   |-> t.act = "l7",
        exact   |-> t.src # WILD /\ t.dst # WILD]

Decision(I, s, d, default) == IF Summary(I, s, d, default, FALSE).allowed THEN "allow" ELSE "deny"

\* state/intention.go IntentionTopology / intentionTopologyTxn (ServiceTopology, IntentionUpstreams): among the
\* registered candidate services, those whose pair with the target "may connect".  The pair is decided like
\* every other pair - by the single most specific matching intention, else the default - with
\* AllowPermissions = TRUE: an intention with permissions counts as "may connect" here (which requests pass is
\* decided per request by the proxy).  Upstreams: target is the (local) source; downstreams: target is the
\* destination and the candidates are local sources.  The target itself is never listed.
Topology(I, target, downstreams, default, Cands) ==
  {c \in Cands \ {target} :
     IF downstreams THEN Summary(I, [name |-> c, peer |-> NOPEER], target, default, TRUE).allowed
     ELSE Summary(I, [name |-> target, peer |-> NOPEER], c, default, TRUE).allowed}

\* state/intention.go IntentionMatch / IntentionMatchOne (legacyIntentionMatchTxn: intentionMatchGetParams;
\* config entries: readSourceIntentionsFromConfigEntriesTxn / readDestinationIntentionsFromConfigEntriesTxn
\* over getIntentionPrecedenceMatchServiceNames).  A source query names a NOPEER service (no peer field).
BySource(I, n) == {i \in I : i.peer = NOPEER /\ i.src \in {n, WILD}}
ByDest(I, d)   == {i \in I : i.dst \in {d, WILD}}

\* "returned in precedence order": any order that never puts a less specific intention before a more
\* specific one.  The order among equal precedences is not part of the property (the code uses a
\* lexicographic tie-break, IntentionPrecedenceSorter.Less) - but it must be a function of the set,
\* see OrderIndependent in IntentionsTrace.
PrecSorted(q) == \A k \in 1..(Len(q) - 1) : Prec(q[k]) >= Prec(q[k + 1])
IsListOf(q, S) == Len(q) = Cardinality(S) /\ {q[k] : k \in DOMAIN q} = S

\* state/intention.go IntentionDecision as the code computes it: walk a precedence-sorted list, the first
\* entry that matches the target decides.  Used by the model checker to show that EVERY admissible
\* list order yields Summary (i.e. the tie-break cannot matter).
FirstMatch(q, P(_)) ==
  LET hits == {k \in DOMAIN q : P(q[k])} IN
  IF hits = {} THEN 0 ELSE CHOOSE k \in hits : \A m \in hits : k <= m

\* ------------------------------------------------------------------ writes
\* Upsert: LegacyIntentionSet (same ID = update) ; EnsureConfigEntry of the destination's entry with the
\* source replaced/added ; IntentionMutation upsert.  Delete: LegacyIntentionDelete ; entry rewritten without
\* the source, DeleteConfigEntry when it was the last one ; IntentionMutation delete.
Upsert(I, i) == {j \in I : Key(j) # Key(i)} \cup {i}
Delete(I, i) == {j \in I : Key(j) # Key(i)}
ApplyOp(I, o) == IF o.op = "upsert" THEN Upsert(I, o.ixn) ELSE Delete(I, o.ixn)

RECURSIVE Fold(_, _)
Fold(I, h) == IF h = <<>> THEN I ELSE Fold(ApplyOp(I, Head(h)), Tail(h))

\* ------------------------------------------------------------------ writes that address an intention by IDENTITY
\* The legacy API names an intention by a UUID: LegacyIntentionSet with a new ID creates, with an existing ID
\* REPLACES the whole record - source and destination included (legacyIntentionSetTxn) ; LegacyIntentionDelete(id).
\* After the migration the same API is served from config entries: IntentionMutation create / update / delete by
\* SourceIntention.LegacyID (intentionMutationLegacyCreate/Update/Delete; an update stays inside its destination's
\* entry).  State: J = set of [id, ixn]; the SET of intentions is SetOf(J) and every answer is a function of it -
\* whatever the identities and whatever was stored under an identity before.
SetOf(J) == {j.ixn : j \in J}
KeyFreeFor(J, id, i) == \A j \in J : j.id # id => Key(j.ixn) # Key(i)     \* "duplicate intention found" / "defines %q more than once"
IdAccepts(J, o) ==
  CASE o.op = "create" -> (\A j \in J : j.id # o.id) /\ KeyFreeFor(J, o.id, o.ixn)
    [] o.op = "update" -> (\E j \in J : j.id = o.id) /\ KeyFreeFor(J, o.id, o.ixn)
    [] OTHER           -> \E j \in J : j.id = o.id                        \* "remove"
IdApply(J, o) ==
  IF ~IdAccepts(J, o) THEN J                                                \* a refused write changes nothing
  ELSE IF o.op = "remove" THEN {j \in J : j.id # o.id}
  ELSE {j \in J : j.id # o.id} \cup {[id |-> o.id, ixn |-> o.ixn]}
RECURSIVE IdFold(_, _)
IdFold(J, h) == IF h = <<>> THEN J ELSE IdFold(IdApply(J, Head(h)), Tail(h))
IdReps == {"legacy-id", "ce-legacyid"}

\* which intentions a representation can hold:
\*   legacy table and the legacy-ID API: no peers, no permissions (Intention.Validate / LegacyValidate) ;
\*   IntentionMutation upsert: no peer (Intention.Apply rejects SourcePeer) ; permissions never on a wildcard
\*   destination (validate()).
Representable(rep, i) ==
  /\ ~(i.act = "l7" /\ i.dst = WILD)
  /\ (rep \in {"legacy", "legacy-id", "ce-legacyid"} => i.peer = NOPEER /\ i.act # "l7")
  /\ (rep = "ce-upsert" => i.peer = NOPEER)
=============================================================================
