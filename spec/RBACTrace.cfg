SPECIFICATION Spec
CONSTANTS
  AsCoded = FALSE
CHECK_DEADLOCK FALSE
