-------------------------------- MODULE CAS --------------------------------
(***************************************************************************)
(* Conditional writes (property C10).  One abstract CELL per conditional   *)
(* command type: an entity that may exist, with a modify index and a       *)
(* payload tag, plus the index of its table (CA roots fence on that).      *)
(* Actions: unconditional Put / Del (to build the pre-states absent,       *)
(* present, re-created) and the conditional command Cond(sup) with a       *)
(* supplied index of class zero / current / stale / future.                *)
(*                                                                         *)
(* Matched(kind, cell, sup) is the only thing that differs between command *)
(* types; the three equivalences of the property are stated once:          *)
(*   applied <=> matched ; reported <=> applied ; ~applied => nothing      *)
(*   changed.  A composite (CA roots + CA config) is two cells written by  *)
(*   one command: both parts or none.                                      *)
(***************************************************************************)
EXTENDS CASJudge

-----------------------------------------------------------------------------
(* the cell as a state machine, for TLC: generates every pre-state x supplied index *)
CONSTANTS Kinds, MaxSteps
VARIABLES cell, n, hist, last

Init == cell = [exists |-> FALSE, mi |-> 0, tix |-> 0, tag |-> 0] /\ n = 0 /\ hist = <<>> /\ last = [applied |-> FALSE, matched |-> FALSE, unspec |-> TRUE, changed |-> FALSE]

Put == /\ n < MaxSteps
       /\ cell' = [exists |-> TRUE, mi |-> n + 1, tix |-> n + 1, tag |-> n + 1]
       /\ n' = n + 1 /\ hist' = Append(hist, [op |-> "put"]) /\ UNCHANGED last
Del == /\ n < MaxSteps /\ cell.exists
       /\ cell' = [cell EXCEPT !.exists = FALSE, !.tix = n + 1]
       /\ n' = n + 1 /\ hist' = Append(hist, [op |-> "del"]) /\ UNCHANGED last

SupOf(class) == CASE class = "zero" -> 0 [] class = "current" -> (IF cell.exists THEN cell.mi ELSE cell.tix)
                  [] class = "stale" -> (IF cell.mi > 1 THEN cell.mi - 1 ELSE cell.mi + 1) [] class = "future" -> n + 7
Cond(kind, isdel, class) ==
  LET sup == SupOf(class)
      m == Matched(kind, cell.exists, cell.mi, cell.tix, sup)
  IN /\ n < MaxSteps
     /\ cell' = IF ~m THEN cell
                ELSE IF isdel THEN [cell EXCEPT !.exists = FALSE, !.tix = n + 1]
                ELSE [exists |-> TRUE, mi |-> n + 1, tix |-> n + 1, tag |-> n + 1]
     /\ n' = n + 1
     /\ hist' = Append(hist, [op |-> "cond", class |-> class])
     /\ last' = [applied |-> m, matched |-> m, unspec |-> Unspec(kind, cell.exists), changed |-> cell' # cell]

Next == Put \/ Del \/ \E k \in Kinds, c \in {"zero", "current", "stale", "future"} : Cond(k, k = "del", c)
Spec == Init /\ [][Next]_<<cell, n, hist, last>>

\* on the model the equivalences hold by construction of Cond; TLC confirms and, more importantly,
\* enumerates all (pre-state, supplied class) pairs reachable within MaxSteps
Honest == (last.applied <=> last.matched) /\ (~last.applied => ~last.changed \/ last.unspec)
View == <<cell, n>>
=============================================================================
