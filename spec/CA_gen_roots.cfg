SPECIFICATION Spec
CONSTANTS
  Profile = "roots"
  MaxDepth = 3
  Universe = "full"
VIEW View
PROPERTIES EmitProp
CHECK_DEADLOCK FALSE
