------------------------------ MODULE ReplDiff ------------------------------
(* C19 - one replication round makes a secondary datacenter equal to the      *)
(* primary.                                                                   *)
(*                                                                            *)
(* Transcribes, one TLA+ step per loop iteration, the merge-walks             *)
(*   agent/consul/acl_replication.go            diffACLType      (kind "acl") *)
(*   agent/consul/config_replication.go         diffConfigEntries ("config")  *)
(*   agent/consul/federation_state_replication.go                             *)
(*                      FederationStateReplicator.DiffRemoteAndLocalState     *)
(*                                                                 ("fed")    *)
(* and the application of the computed (deletions, upserts) to the secondary  *)
(* (replicateACLType / replicateConfig: deletions first, then upserts).       *)
(*                                                                            *)
(* An object is a record [id, mi, c, h, lo]:                                  *)
(*   id  identifier, an integer whose order is the order of the real keys     *)
(*       (0 = the empty identifier of a legacy, unmigrated entry: "" sorts    *)
(*       before every other string);                                          *)
(*   mi  raft modify index in the datacenter the object was read from;        *)
(*   c   content (everything but id, indexes and the hash);                   *)
(*   h   content hash as stored in the object, 0 = no hash (nil / zero);      *)
(*   lo  local-only: lives in the secondary but is not subject to replication *)
(*       (local-scoped tokens). FetchLocal does not list such objects.        *)
(*                                                                            *)
(* This module has no variables: the walk is the total function Step over a   *)
(* state record, so that ReplDiffMC can check it with TLC and ReplDiffTrace   *)
(* can run it on inputs recorded from the real code.                          *)
EXTENDS Integers, Sequences, FiniteSets, TLC, SequencesExt

Rng(s) == {s[i] : i \in DOMAIN s}
NonEmptyId(S) == {o \in S : o.id # 0}
Proj(S) == {[id |-> o.id, c |-> o.c] : o \in S}

(* ---- kinds ---------------------------------------------------------------- *)
\* diffACLType skips entries whose id is "" on either side; the other two walks do not look.
SkipsEmptyIds(kind) == kind = "acl"

\* "is the local copy the same as the remote one" as the code decides it:
\*   acl    bytes.Equal(remoteHash, localHash)                      (nil = nil)
\*   config configentry.SameHash: both hashes non-zero and equal
\*   fed    no hash: a changed index always means upsert
SameHash(kind, l, r) ==
  CASE kind = "acl"    -> l.h = r.h
    [] kind = "config" -> l.h # 0 /\ r.h # 0 /\ l.h = r.h
    [] OTHER           -> FALSE

(* ---- sort ----------------------------------------------------------------- *)
\* tr.SortState() / configentry.SortSlice / federationStateSort: both sides by the same key.
RECURSIVE InsertById(_, _)
InsertById(s, o) ==
  IF s = <<>> THEN <<o>>
  ELSE IF o.id < Head(s).id THEN <<o>> \o s
  ELSE <<Head(s)>> \o InsertById(Tail(s), o)
RECURSIVE SortById(_)
SortById(s) == IF s = <<>> THEN <<>> ELSE InsertById(SortById(SubSeq(s, 1, Len(s) - 1)), s[Len(s)])

(* ---- state of one replication round --------------------------------------- *)
\* sec  : everything stored in the secondary (ids # 0), including local-only objects
\* inL  : what the secondary lists for the diff, in listing order (FetchLocal + legacy entries)
\* inR  : what the primary returned, in arrival order
\* last : the lastRemoteIndex the DIFF is called with
\* The remaining fields belong to the round around the diff (RoundInit below): glast = the lastRemoteIndex the round
\* was started with, ridx = the index the primary answered with, fault = fault of the fetch-updated step.
NoFault == [t |-> "none", id |-> 0, oc |-> 0, mod |-> FALSE]
InitState(kind, sec, inL, inR, last) ==
  [kind |-> kind, last |-> last, sec |-> sec, inL |-> inL, inR |-> inR,
   local |-> <<>>, remote |-> <<>>, li |-> 1, ri |-> 1,
   dels |-> <<>>, ups |-> <<>>, lskip |-> 0, rskip |-> 0, pc |-> "sort",
   glast |-> last, ridx |-> last, fault |-> NoFault]

\* replicateACLType / replicateConfig / IndexReplicator.Replicate: "If the remote index ever goes backwards, it's a
\* good indication that the remote side was rebuilt and we should do a full sync": the diff then runs with 0.
EffLast(glast, ridx) == IF ridx < glast THEN 0 ELSE glast

\* fault = [t, id, oc, mod]: the batch read that fetches the bodies of the upserts (FetchUpdated: ACL.PolicyBatchRead,
\* ACL.TokenBatchRead, both AllowStale) is answered by a lagging server of the primary that
\*   t = "stale": still holds an OLDER version (content oc, lower modify index) of the listed object id,
\*   t = "omit" : does not hold object id at all (mod: the listed object was modified after its creation).
RoundInit(kind, sec, inL, inR, glast, ridx, fault) ==
  [InitState(kind, sec, inL, inR, EffLast(glast, ridx)) EXCEPT !.glast = glast, !.ridx = ridx, !.fault = fault]

\* one iteration of the main loop  `for localIdx < lenLocal && remoteIdx < lenRemote`
MergeStep(s) ==
  LET l == s.local[s.li]
      r == s.remote[s.ri]
  IN
  IF SkipsEmptyIds(s.kind) /\ l.id = 0 THEN [s EXCEPT !.lskip = @ + 1, !.li = @ + 1]
  ELSE IF SkipsEmptyIds(s.kind) /\ r.id = 0 THEN [s EXCEPT !.rskip = @ + 1, !.ri = @ + 1]
  ELSE IF l.id = r.id THEN
       \* in both: upsert only if the remote changed after lastRemoteIndex and the hashes differ
       [s EXCEPT !.ups = IF r.mi > s.last /\ ~SameHash(s.kind, l, r) THEN Append(@, r.id) ELSE @,
                 !.li = @ + 1, !.ri = @ + 1]
  ELSE IF l.id < r.id THEN [s EXCEPT !.dels = Append(@, l.id), !.li = @ + 1]     \* no longer in remote
  ELSE [s EXCEPT !.ups = Append(@, r.id), !.ri = @ + 1]                           \* not yet local

\* one iteration of `for ; localIdx < lenLocal`
DrainLocalStep(s) ==
  LET l == s.local[s.li] IN
  IF SkipsEmptyIds(s.kind) /\ l.id = 0 THEN [s EXCEPT !.lskip = @ + 1, !.li = @ + 1]
  ELSE [s EXCEPT !.dels = Append(@, l.id), !.li = @ + 1]

\* one iteration of `for ; remoteIdx < lenRemote`
DrainRemoteStep(s) ==
  LET r == s.remote[s.ri] IN
  IF SkipsEmptyIds(s.kind) /\ r.id = 0 THEN [s EXCEPT !.rskip = @ + 1, !.ri = @ + 1]
  ELSE [s EXCEPT !.ups = Append(@, r.id), !.ri = @ + 1]

\* the walk as a total function of the state (loop tests are steps of their own)
Step(s) ==
  CASE s.pc = "sort"   -> [s EXCEPT !.local = SortById(s.inL), !.remote = SortById(s.inR), !.pc = "merge"]
    [] s.pc = "merge"  -> IF s.li <= Len(s.local) /\ s.ri <= Len(s.remote) THEN MergeStep(s) ELSE [s EXCEPT !.pc = "drainL"]
    [] s.pc = "drainL" -> IF s.li <= Len(s.local) THEN DrainLocalStep(s) ELSE [s EXCEPT !.pc = "drainR"]
    [] s.pc = "drainR" -> IF s.ri <= Len(s.remote) THEN DrainRemoteStep(s) ELSE [s EXCEPT !.pc = "done"]
    [] OTHER           -> s

RECURSIVE Run(_)
Run(s) == IF s.pc = "done" THEN s ELSE Run(Step(s))

\* termination: this natural number decreases with every step
PcRank(pc) == CASE pc = "sort" -> 4 [] pc = "merge" -> 3 [] pc = "drainL" -> 2 [] pc = "drainR" -> 1 [] OTHER -> 0
Measure(s) == (Len(s.inL) + 1 - s.li) + (Len(s.inR) + 1 - s.ri) + PcRank(s.pc)

(* ---- applying a diff (replicateACLType / replicateConfig) ------------------ *)
\* ApplyDiff is the intended effect: DeleteLocalBatch / ConfigEntryDelete remove by id; UpdateLocalBatch /
\* ConfigEntryUpsert store the primary's object (content and hash) under the same id. mi of a written object
\* is a new local index, which no property looks at (0 here).
ApplyDiff(sec, D, U, R) ==
  {o \in sec : o.id \notin D /\ o.id \notin U}
  \cup {[id |-> r.id, mi |-> 0, c |-> r.c, h |-> r.h, lo |-> FALSE] : r \in {q \in R : q.id \in U}}

\* ACL policies and roles carry a name that is unique per datacenter (state/acl.go aclPolicySetTxn,
\* aclRoleSetTxn: "A policy with name ... already exists"). Contents in SharedCs stand for "has the name that
\* other objects may also want"; every other content has a name of its own. The key of an object:
SharedCs == {7}
KeyOf(o) == IF o.c \in SharedCs THEN <<0, o.c>> ELSE <<1, o.id>>
KeyClash(kind, a, b) == kind = "acl" /\ a.id # 0 /\ b.id # 0 /\ a.id # b.id /\ KeyOf(a) = KeyOf(b)
UniqueKeys(kind, S) == \A a, b \in S : ~KeyClash(kind, a, b)

\* The round as replicateACLType / replicateConfig / IndexReplicator.Replicate run it: all deletions first, then
\* the upserts as one batch that the store accepts or rejects as a whole. A batch is rejected when one of its
\* objects needs a key that an object outside the batch still holds (objects renamed by the batch itself release
\* their old key first: ACLPolicyBatchSet / ACLRoleBatchSet). A rejected batch leaves the deletions applied.
ApplyRound(kind, sec, D, U, R) ==
  LET afterDel == {o \in sec : o.id \notin D}
      batch    == {q \in R : q.id \in U}
      rest     == {o \in afterDel : o.id \notin U}
      rejected == \E b \in batch : \E o \in rest \cup batch : KeyClash(kind, b, o)
  IN [ok |-> ~rejected, st |-> IF rejected THEN afterDel ELSE ApplyDiff(sec, D, U, R)]

\* the same commands in the other order: upserts while the objects to be deleted still hold their keys
\* (not what the code does; used to show that the order matters)
ApplyUpsertsFirst(kind, sec, D, U, R) ==
  LET batch    == {q \in R : q.id \in U}
      rest     == {o \in sec : o.id \notin U}
      rejected == \E b \in batch : \E o \in rest \cup batch : KeyClash(kind, b, o)
  IN [ok |-> ~rejected, st |-> IF rejected THEN sec ELSE ApplyDiff(sec, D, U, R)]

RoundAccepted(s) == ApplyRound(s.kind, s.sec, Rng(s.dels), Rng(s.ups), Rng(s.inR)).ok

\* The outcome of a finished round: [err, post, idx]. idx is the index the round hands back ("we've synced up with
\* the remote state as of that index"); the caller keeps its old lastRemoteIndex when err.
\* A fetch fault matters only if the faulted object is one of the upserts. The property-conforming outcome of such a
\* round (what ensureRemoteConsistent exists for): error, nothing applied, no index.
FaultHits(s) == s.fault.t # "none" /\ s.fault.id \in Rng(s.ups)
Result(s) ==
  LET a == ApplyRound(s.kind, s.sec, Rng(s.dels), Rng(s.ups), Rng(s.inR)) IN
  IF FaultHits(s) THEN [err |-> TRUE, post |-> s.sec, idx |-> 0]
  ELSE [err |-> ~a.ok, post |-> a.st, idx |-> IF a.ok THEN s.ridx ELSE 0]
Post(s) == Result(s).post

(* ---- environment assumptions ---------------------------------------------- *)
Listed(s) == Rng(s.inL)
Remote(s) == Rng(s.inR)

\* "last-seen remote index consistent with what the secondary has already applied":
\* an object on both sides that did not change after lastRemoteIndex already has the remote content
Consistent(L, R, last) ==
  \A l \in NonEmptyId(L), r \in NonEmptyId(R) : (l.id = r.id /\ r.mi <= last) => l.c = r.c

\* the stored hash of an object is a function of its content, the same one in both datacenters
\* (c is a per-identifier label: contents of objects with different ids are never compared)
HashFaithful(S) == \A a, b \in {o \in S : o.h # 0} : a.id = b.id => ((a.h = b.h) <=> (a.c = b.c))

UniqueIds(S) == \A a, b \in NonEmptyId(S) : a.id = b.id => a = b

\* what the caller of the diff guarantees
EnvInput(s) ==
  \* (s.last is the effective index: nothing is assumed when the primary's index went backwards)
  /\ Consistent(Listed(s), Remote(s), s.last)
  /\ s.last = EffLast(s.glast, s.ridx)
  /\ \A r \in NonEmptyId(Remote(s)) : r.mi <= s.ridx \/ s.ridx >= s.glast      \* the primary's index covers what it lists
  /\ (s.fault.t # "none" =>
        /\ s.kind = "acl" /\ s.fault.id # 0
        /\ \E r \in Remote(s) : r.id = s.fault.id /\ r.c # s.fault.oc)
  /\ UniqueIds(Listed(s)) /\ UniqueIds(Remote(s)) /\ UniqueIds(s.sec)
  \* names are unique within a datacenter
  /\ UniqueKeys(s.kind, {o \in s.sec : ~o.lo}) /\ UniqueKeys(s.kind, Remote(s))
  /\ \A o \in s.sec : o.id # 0
  \* identifiers of local-only objects are fresh (UUIDs): never used by the primary
  /\ \A o \in s.sec : o.lo => o.id \notin {r.id : r \in Remote(s)}
  \* only ACL listings can carry entries without id; ACL objects with an id always carry a hash
  /\ (~SkipsEmptyIds(s.kind) => \A o \in Listed(s) \cup Remote(s) : o.id # 0)
  /\ (s.kind = "acl" => \A o \in NonEmptyId(Listed(s) \cup Remote(s)) : o.h # 0)
  /\ \A o \in Listed(s) \cup Remote(s) : ~o.lo

\* ... what the local listing (FetchLocal, ConfigEntries, FederationStateList) guarantees: it is the
\* replicated part of the store - local-only objects are not listed - plus legacy entries that have no id
ListingOK(s) == NonEmptyId(Listed(s)) = {o \in s.sec : ~o.lo}

\* ... and what the hash functions (SetHash, HashConfigEntry) guarantee
Env(s) == EnvInput(s) /\ ListingOK(s) /\ HashFaithful(Listed(s) \cup Remote(s))

(* ---- the property ---------------------------------------------------------- *)
\* the replicated set of the secondary after the round equals the primary's (id + content)
Converged(post, R) == Proj({o \in post : ~o.lo /\ o.id # 0}) = Proj(NonEmptyId(R))

\* local-only objects are exactly what they were; nothing is written under the empty id
LocalOnlyUntouched(sec, post, D, U) ==
  /\ {o \in post : o.lo} = {o \in sec : o.lo}
  /\ 0 \notin D /\ 0 \notin U

\* a secondary that is already equal (and whose copies carry hashes) produces no writes
AlreadyEqual(kind, L, R) ==
  /\ kind # "fed"
  /\ Proj(NonEmptyId(L)) = Proj(NonEmptyId(R))
  /\ \A o \in NonEmptyId(L) \cup NonEmptyId(R) : o.h # 0
EqualMeansNoWrites(kind, L, R, D, U) == AlreadyEqual(kind, L, R) => (D = {} /\ U = {})

(* ---- what any correct diff must / may return (the property is silent in between) *)
IdSet(S) == {o.id : o \in NonEmptyId(S)}
MustDelete(L, R) == IdSet(L) \ IdSet(R)
MustUpsert(L, R) == {r.id : r \in {q \in NonEmptyId(R) : \A l \in NonEmptyId(L) : l.id = q.id => l.c # q.c}}
DiffSound(kind, L, R, D, U) ==
  /\ D = MustDelete(L, R)
  /\ MustUpsert(L, R) \subseteq U
  /\ U \subseteq IdSet(R)

(* ---- closed form of the walk's result (checked against the step-wise walk by TLC) *)
WalkDeletes(s) ==
  {l.id : l \in {x \in Listed(s) : (SkipsEmptyIds(s.kind) => x.id # 0) /\ x.id \notin {r.id : r \in Remote(s)}}}
WalkUpserts(s) ==
  {r.id : r \in {q \in Remote(s) :
      /\ (SkipsEmptyIds(s.kind) => q.id # 0)
      /\ \A l \in Listed(s) : l.id = q.id => (q.mi > s.last /\ ~SameHash(s.kind, l, q))}}

\* The index a round hands back is honest: everything the primary listed with a modify index up to it has the
\* primary's content in the secondary - exactly the Consistent assumption of the NEXT round.
IndexHonest(post, R, err, idx) == ~err => Consistent({o \in post : ~o.lo}, R, idx)

\* Whatever a round writes is the primary's CURRENT version: every replicated object afterwards has the content it
\* had before or the listed one (never the older body of a lagging server).
NoStaleBody(sec, post, R) == Proj({o \in post : ~o.lo /\ o.id # 0}) \subseteq Proj(sec) \cup Proj(R)

\* the following fault-free round, started the way Replicator.Run starts it
NextLast(s) == IF Result(s).err THEN s.glast ELSE Result(s).idx
NextRound(s) ==
  LET p == Result(s).post
      legacy == SelectSeq(s.inL, LAMBDA o : o.id = 0)
  IN Run(RoundInit(s.kind, p, legacy \o SetToSeq({o \in p : ~o.lo}), s.inR, NextLast(s), s.ridx, NoFault))
NextRoundConverges(s) ==
  LET r2 == Result(NextRound(s)) IN
  ~r2.err /\ Converged(r2.post, Remote(s)) /\ {o \in r2.post : o.lo} = {o \in s.sec : o.lo}

\* ... of a round whose fetch step was not hit by a fault
RoundOKNoFault(s) ==
  LET D == Rng(s.dels)  U == Rng(s.ups)  p == Post(s) IN
  /\ RoundAccepted(s)                      \* deletions first: no upsert meets a key that is about to be freed
  /\ Converged(p, Remote(s))
  /\ LocalOnlyUntouched(s.sec, p, D, U)
  /\ EqualMeansNoWrites(s.kind, Listed(s), Remote(s), D, U)
  /\ DiffSound(s.kind, Listed(s), Remote(s), D, U)
  /\ D = WalkDeletes(s) /\ U = WalkUpserts(s)
  /\ Len(s.dels) = Cardinality(D) /\ Len(s.ups) = Cardinality(U)          \* nothing written twice
  /\ s.lskip = Cardinality({i \in DOMAIN s.inL : s.inL[i].id = 0 /\ SkipsEmptyIds(s.kind)})
  /\ s.rskip = Cardinality({i \in DOMAIN s.inR : s.inR[i].id = 0 /\ SkipsEmptyIds(s.kind)})

\* everything the round promises, evaluated on a finished walk
RoundOK(s) ==
  LET D == Rng(s.dels)  U == Rng(s.ups)  p == Post(s)  r == Result(s) IN
  /\ IndexHonest(r.post, Remote(s), r.err, r.idx)
  /\ NoStaleBody(s.sec, r.post, Remote(s))
  /\ ((s.fault.t # "none" \/ s.ridx < s.glast) => NextRoundConverges(s))
  /\ (FaultHits(s) => r.err /\ r.post = s.sec /\ r.idx = 0)
  /\ FaultHits(s) \/ RoundOKNoFault(s)
=============================================================================
