--------------------------- MODULE BlockingQuery ---------------------------
(***************************************************************************)
(* The blocking-query loop (agent/blockingquery/blockingquery.go Query,     *)
(* with Server.SetQueryMeta of agent/consul/rpc.go) against a store whose   *)
(* read obeys the index contract of property C06.                            *)
(*                                                                           *)
(* A "world" is the history of ONE read: a sequence of versions             *)
(* [idx, res, found]; writes move along it.  Actions are the sections of     *)
(* the loop: RunQuery (evaluate the read, register the watch, decide),       *)
(* Wake (the registered watch fired), Timeout, Abandon (store replaced by a  *)
(* restore).  Checked: a call returns only with a larger index, a timeout    *)
(* or an abandoned store; and a blocked call whose read result has changed   *)
(* is never left asleep (no lost wake-up, incl. the not-found bookkeeping).  *)
(***************************************************************************)
EXTENDS Integers, Sequences, FiniteSets, TLC

CONSTANTS MaxIdx, MaxLen, Variant   \* Variant = "code" ; "merged" = the not-found floor moved on the first repeat pass (a seeded defect, used to show the model bites)
\* every read history that obeys C06: the index never decreases and strictly increases when the
\* (result, found) pair changes; a history may also carry writes that do not touch the read at all
Versions == [idx : 1..MaxIdx, res : {"r1", "r2"}, found : BOOLEAN]
GoodWorld(w) == \A i \in 1..(Len(w) - 1) :
                   /\ w[i + 1].idx >= w[i].idx
                   /\ (<<w[i + 1].res, w[i + 1].found>> # <<w[i].res, w[i].found>> => w[i + 1].idx > w[i].idx)
                   /\ (~w[i].found => w[i].res = "r1") /\ (~w[i + 1].found => w[i + 1].res = "r1")
Worlds == {w \in UNION {[1..n -> Versions] : n \in 1..MaxLen} : GoodWorld(w)}

VARIABLES world, ver, reqMin, minIdx, pc, notFound, ranOnce, metaIdx, watchVer, out, startVer
vars == <<world, ver, reqMin, minIdx, pc, notFound, ranOnce, metaIdx, watchVer, out, startVer>>

Cur == world[ver]
Norm(i) == IF i < 1 THEN 1 ELSE i

Init == /\ world \in Worlds /\ ver \in {1} /\ startVer = 1
        \* a well-behaved caller passes an index this read reported earlier (at most the index of the
        \* version it last saw); an index "from the future" makes the not-found bookkeeping lower the floor
        \* below the request on purpose, so that the caller is not blocked forever
        /\ reqMin \in 0..Norm(world[1].idx) /\ minIdx = reqMin
        /\ pc = "run" /\ notFound = FALSE /\ ranOnce = FALSE /\ metaIdx = 0 /\ watchVer = 0 /\ out = "none"

Write == /\ ver < Len(world) /\ ver' = ver + 1
         /\ UNCHANGED <<world, reqMin, minIdx, pc, notFound, ranOnce, metaIdx, watchVer, out, startVer>>

\* one pass of the loop body
RunQuery ==
  /\ pc = "run"
  /\ LET idx == Norm(Cur.idx)
         nf  == ~Cur.found
         m2  == IF nf /\ (IF Variant = "merged" THEN ranOnce ELSE notFound) THEN idx ELSE minIdx        \* only the SECOND not-found in a row moves the floor
     IN /\ metaIdx' = idx
        /\ notFound' = (notFound \/ nf)
        /\ ranOnce' = TRUE
        /\ minIdx' = m2
        /\ IF reqMin = 0 \/ idx > m2
           THEN pc' = "done" /\ out' = "returned" /\ watchVer' = watchVer
           ELSE pc' = "wait" /\ watchVer' = ver /\ out' = out
  /\ UNCHANGED <<world, ver, reqMin, startVer>>

\* the watch registered by the last pass fires iff the read's data moved since (C06: result changed => watch fires)
Changed(a, b) == <<world[a].res, world[a].found, world[a].idx>> # <<world[b].res, world[b].found, world[b].idx>>
Wake == /\ pc = "wait" /\ Changed(watchVer, ver) /\ pc' = "run"
        /\ UNCHANGED <<world, ver, reqMin, minIdx, notFound, ranOnce, metaIdx, watchVer, out, startVer>>
Timeout == /\ pc = "wait" /\ pc' = "done" /\ out' = "timeout"
           /\ UNCHANGED <<world, ver, reqMin, minIdx, notFound, ranOnce, metaIdx, watchVer, startVer>>
Abandon == /\ pc = "wait" /\ pc' = "done" /\ out' = "abandoned"
           /\ UNCHANGED <<world, ver, reqMin, minIdx, notFound, ranOnce, metaIdx, watchVer, startVer>>

Next == Write \/ RunQuery \/ Wake \/ Timeout \/ Abandon
Spec == Init /\ [][Next]_vars /\ WF_vars(RunQuery) /\ WF_vars(Wake)

ReturnsOnlyIf == out = "returned" => (reqMin = 0 \/ metaIdx > reqMin)
NonZero == pc = "done" /\ out = "returned" => metaIdx >= 1
\* no lost wake-up: asleep is only legitimate while the read's data has not moved past the caller's index
NoLostWake == pc = "wait" => (~Changed(watchVer, ver) => Norm(Cur.idx) <= minIdx)
FloorNeverAboveData == pc = "wait" /\ ~Changed(watchVer, ver) => minIdx <= Norm(Cur.idx) \/ minIdx = reqMin
\* the caller that asked with the index it was given (reqMin = index of version 1) and whose result changed later
\* is never stuck behind a floor that the new data cannot exceed
NeverStuck ==
  (reqMin = Norm(world[1].idx) /\ pc = "wait" /\ ~Changed(watchVer, ver)
     /\ <<Cur.res, Cur.found>> # <<world[1].res, world[1].found>>) => FALSE
=============================================================================
