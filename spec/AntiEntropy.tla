---------------------------- MODULE AntiEntropy ----------------------------
(***************************************************************************)
(* C16 - anti-entropy: the agent's local registrations (agent/local/state.go)*)
(* against the catalog rows of its node (agent/consul/state/catalog.go,      *)
(* reached through Catalog.Register / Catalog.Deregister /                   *)
(* Catalog.NodeServiceList / Health.NodeChecks).                             *)
(*                                                                           *)
(* Functional style (DESIGN.md 2.1): every code section is an operator on an *)
(* abstract state record, so that the exhaustive model (AntiEntropyMC), the  *)
(* behaviour generator and the trace specification (AntiEntropyTrace, which  *)
(* applies the operators to RECORDED IMPLEMENTATION states) share one text.  *)
(*                                                                           *)
(* Abstract state  s :                                                       *)
(*   nis    nodeInfoInSync                                                   *)
(*   svcs   [id -> [id,has,port,eto,tag,native,cva,tok,ins,del]]             *)
(*            l.services ; has = (Service # nil) ; ins/del = InSync/Deleted  *)
(*   chks   [id -> [id,has,svc,status,output,stags,tok,ins,del,defer]]       *)
(*            l.checks ; defer = (DeferCheck # nil)                          *)
(*   rnode  [has,nid,meta]          the node row of the catalog              *)
(*   rsvcs  [id -> [id,port,eto,tag,native,cva]]   catalog services of node  *)
(*   rchks  [id -> [id,svc,status,output,stags]]   catalog checks of node    *)
(* Server-owned fields: tag of a service with eto (EnableTagOverride), cva   *)
(* (the "consul-virtual" tagged address, written by the servers for          *)
(* connect-native services), stags (ServiceTags copied into a check by the   *)
(* catalog), output of a check while its defer timer runs                    *)
(* (CheckUpdateInterval).                                                    *)
(***************************************************************************)
EXTENDS Integers, Sequences, FiniteSets, SequencesExt, TLC

ManagedSvc == {"consul"}        \* structs.IsConsulServiceID
ManagedChk == {"serfHealth"}    \* structs.IsSerfCheckID
Denied == {"denied", "notfound"}   \* acl.IsErrPermissionDenied(err), acl.IsErrNotFound(err)
Cls(o) == IF o \in Denied THEN "denied" ELSE o

Has(f, id) == id \in DOMAIN f
Put(f, id, e) == [x \in DOMAIN f \cup {id} |-> IF x = id THEN e ELSE f[x]]
Del(f, ids) == [x \in DOMAIN f \ ids |-> f[x]]
Empty == [x \in {} |-> 0]

NoNode == [has |-> FALSE, nid |-> "", meta |-> ""]
SelfNode == [has |-> TRUE, nid |-> "self", meta |-> ""]
InitState == [nis |-> FALSE, svcs |-> Empty, chks |-> Empty, rnode |-> NoNode, rsvcs |-> Empty, rchks |-> Empty]

NoSvc == [id |-> "", has |-> FALSE, port |-> 0, eto |-> FALSE, tag |-> "", native |-> FALSE, cva |-> 0, tok |-> "", ins |-> FALSE, del |-> TRUE]
NoChk == [id |-> "", has |-> FALSE, svc |-> "", status |-> "", output |-> "", stags |-> "", tok |-> "", ins |-> FALSE, del |-> TRUE, defer |-> FALSE]
SvcMarker(id) == [NoSvc EXCEPT !.id = id]     \* &ServiceState{Deleted: true}
ChkMarker(id) == [NoChk EXCEPT !.id = id]     \* &CheckState{Deleted: true}

---------------------------------------------------------------------------
(* equality *)
\* structs.NodeService.IsSame / structs.HealthCheck.IsSame on the modelled fields (what the CODE compares)
IsSameSvc(a, b) == a.port = b.port /\ a.eto = b.eto /\ a.tag = b.tag /\ a.native = b.native /\ a.cva = b.cva
IsSameChk(a, b) == a.svc = b.svc /\ a.status = b.status /\ a.output = b.output /\ a.stags = b.stags
\* what the PROPERTY compares: definitions without the fields the servers own
SvcEq(l, r) == l.port = r.port /\ l.eto = r.eto /\ l.native = r.native /\ (l.eto \/ l.tag = r.tag)
ChkEq(l, r) == l.svc = r.svc /\ l.status = r.status /\ (l.defer \/ l.output = r.output)
NodeSame(rn) == rn = SelfNode

---------------------------------------------------------------------------
(* the catalog: state.Store.EnsureRegistration / DeleteService / DeleteCheck / DeleteNode *)
\* ensureServiceTxn: a connect-native service gets its virtual IP as tagged address "consul-virtual" (port = service port)
SrvSvc(e) == [id |-> e.id, port |-> e.port, eto |-> e.eto, tag |-> e.tag, native |-> e.native,
              cva |-> IF e.native THEN e.port ELSE e.cva]
\* ensureCheckTxn: a service check needs its service (ErrMissingService aborts the whole registration)
RegOK(s, hasSvc, svc, cs) == \A c \in cs : c.svc = "" \/ (hasSvc /\ svc.id = c.svc) \/ Has(s.rsvcs, c.svc)
\* ensureRegistrationTxn(req): node (unless SkipNodeUpdate and the node exists), service, checks - one transaction
RegApply(s, skip, hasSvc, svc, cs) ==
  LET rn == IF ~s.rnode.has \/ (~skip /\ ~NodeSame(s.rnode)) THEN SelfNode ELSE s.rnode
      rs == IF hasSvc THEN Put(s.rsvcs, svc.id, SrvSvc(svc)) ELSE s.rsvcs
      row(c) == [id |-> c.id, svc |-> c.svc, status |-> c.status, output |-> c.output,
                 stags |-> IF c.svc = "" THEN "" ELSE rs[c.svc].tag]      \* "Copy in the service name and tags"
      \* ensureServiceTxn: a service that changes its tags rewrites the copies held by its checks
      retag == hasSvc /\ Has(s.rsvcs, svc.id) /\ s.rsvcs[svc.id].tag # rs[svc.id].tag
      rc == [i \in DOMAIN s.rchks \cup {c.id : c \in cs} |->
               IF \E c \in cs : c.id = i THEN row(CHOOSE c \in cs : c.id = i)
               ELSE IF retag /\ s.rchks[i].svc = svc.id THEN [s.rchks[i] EXCEPT !.stags = rs[svc.id].tag]
               ELSE s.rchks[i]]
  IN [s EXCEPT !.rnode = rn, !.rsvcs = rs, !.rchks = rc]
\* deleteServiceTxn: the service and, in cascade, its checks
DeregSvc(s, id) == IF ~Has(s.rsvcs, id) THEN s
                   ELSE [s EXCEPT !.rsvcs = Del(@, {id}), !.rchks = Del(@, {c \in DOMAIN @ : @[c].svc = id})]
DeregChk(s, id) == [s EXCEPT !.rchks = Del(@, {id})]
DeregNode(s) == [s EXCEPT !.rnode = NoNode, !.rsvcs = Empty, !.rchks = Empty]

---------------------------------------------------------------------------
(* local actions *)
\* setCheckStateLocked (via addCheckLocked).  PROPERTY-CONFORMING: the new entry is in sync only if the
\* old one WAS in sync and has the same definition.  (The code today takes IsSame(old) alone and
\* dereferences old.Check even for the {Deleted:true} markers: see AddFlagAllowed / findings.)
AddChkLocked(s, id, svc, status, output, stags, tok) ==
  LET hasOld == Has(s.chks, id)
      old == IF hasOld THEN s.chks[id] ELSE NoChk
      n0 == [id |-> id, has |-> TRUE, svc |-> svc, status |-> status, output |-> output, stags |-> stags,
             tok |-> tok, ins |-> FALSE, del |-> FALSE, defer |-> FALSE]
      carry == hasOld /\ old.defer          \* existing.DeferCheck is moved to the new entry, InSync = false
      n == [n0 EXCEPT !.defer = carry, !.ins = hasOld /\ old.has /\ IsSameChk(n0, old) /\ old.ins /\ ~old.del /\ ~carry]
  IN [s EXCEPT !.chks = Put(@, id, n)]

RECURSIVE AddChks(_, _, _, _, _)
AddChks(s, cs, svc, stags, tok) ==
  IF cs = <<>> THEN s
  ELSE AddChks(AddChkLocked(s, Head(cs).id, svc, Head(cs).status, Head(cs).output, stags, tok), Tail(cs), svc, stags, tok)

\* AddServiceWithChecks -> addServiceLocked -> setServiceStateLocked ; then addCheckLocked per check
NewSvc(c) == [id |-> c.id, has |-> TRUE, port |-> c.def.port, eto |-> c.def.eto, tag |-> c.def.tag, native |-> c.def.native,
              cva |-> 0, tok |-> c.tok, ins |-> FALSE, del |-> FALSE]
AddSvc(s, c) ==
  LET hasOld == Has(s.svcs, c.id)
      old == IF hasOld THEN s.svcs[c.id] ELSE NoSvc
      n == [NewSvc(c) EXCEPT !.ins = hasOld /\ old.has /\ IsSameSvc(NewSvc(c), old) /\ old.ins /\ ~old.del]
  IN [st |-> AddChks([s EXCEPT !.svcs = Put(@, c.id, n)], c.chks, c.id, c.def.tag, c.tok), res |-> "ok"]

\* agent.addCheck (refuses a check of a service that is unknown or being removed) -> State.AddCheck
AddChk(s, c) ==
  IF c.svc # "" /\ ~(Has(s.svcs, c.svc) /\ ~s.svcs[c.svc].del) THEN [st |-> s, res |-> "refused"]
  ELSE [st |-> AddChkLocked(s, c.id, c.svc, c.status, c.output, IF c.svc = "" THEN "" ELSE s.svcs[c.svc].tag, c.tok), res |-> "ok"]

\* UpdateCheck
UpdChk(s, c, cui) ==
  IF ~Has(s.chks, c.id) \/ s.chks[c.id].del THEN s
  ELSE LET e == s.chks[c.id] IN
       IF e.status = c.status /\ e.output = c.output THEN s
       ELSE IF cui /\ e.status = c.status
            THEN [s EXCEPT !.chks[c.id] = [e EXCEPT !.output = c.output, !.defer = TRUE]]   \* output only: deferred
            ELSE [s EXCEPT !.chks[c.id] = [e EXCEPT !.status = c.status, !.output = c.output, !.ins = FALSE]]

\* the time.AfterFunc of UpdateCheck
Fire(s, id) ==
  IF ~Has(s.chks, id) \/ ~s.chks[id].defer THEN [st |-> s, res |-> "noop"]
  ELSE LET e == s.chks[id] IN
       [st |-> [s EXCEPT !.chks[id] = [e EXCEPT !.defer = FALSE, !.ins = IF e.del THEN e.ins ELSE FALSE]], res |-> "ok"]

\* agent.removeServiceLocked -> RemoveServiceWithChecks(id, its not yet removed checks)
RmSvc(s, id) ==
  IF ~Has(s.svcs, id) \/ s.svcs[id].del THEN [st |-> s, res |-> "err"]
  ELSE [st |-> [s EXCEPT !.svcs[id] = [@ EXCEPT !.ins = FALSE, !.del = TRUE],
                         !.chks = [c \in DOMAIN @ |-> IF ~@[c].del /\ @[c].svc = id THEN [@[c] EXCEPT !.ins = FALSE, !.del = TRUE] ELSE @[c]]],
        res |-> "ok"]
\* RemoveCheck
RmChk(s, id) ==
  IF ~Has(s.chks, id) \/ s.chks[id].del THEN [st |-> s, res |-> "err"]
  ELSE [st |-> [s EXCEPT !.chks[id] = [@ EXCEPT !.ins = FALSE, !.del = TRUE]], res |-> "ok"]

---------------------------------------------------------------------------
(* drift: somebody else writes the catalog rows of this node *)
DriftSvcRow(c) == [id |-> c.id, has |-> TRUE, port |-> c.def.port, eto |-> c.def.eto, tag |-> c.def.tag, native |-> c.def.native,
                   cva |-> 0, tok |-> "", ins |-> FALSE, del |-> FALSE]
DriftChkRow(c) == [id |-> c.id, has |-> TRUE, svc |-> c.svc, status |-> c.status, output |-> c.output, stags |-> "",
                   tok |-> "", ins |-> FALSE, del |-> FALSE, defer |-> FALSE]
Drift(s, c) ==
  CASE c.op = "set-svc" -> IF ~s.rnode.has THEN [st |-> s, res |-> "refused"]
                           ELSE [st |-> RegApply(s, TRUE, TRUE, DriftSvcRow(c), {}), res |-> "ok"]
    [] c.op = "set-chk" -> IF ~s.rnode.has THEN [st |-> s, res |-> "refused"]
                           ELSE IF ~RegOK(s, FALSE, NoSvc, {DriftChkRow(c)}) THEN [st |-> s, res |-> "err"]
                           ELSE [st |-> RegApply(s, TRUE, FALSE, NoSvc, {DriftChkRow(c)}), res |-> "ok"]
    [] c.op = "rm-svc"  -> [st |-> DeregSvc(s, c.id), res |-> "ok"]
    [] c.op = "rm-chk"  -> [st |-> DeregChk(s, c.id), res |-> "ok"]
    [] c.op = "node-meta" -> [st |-> [s EXCEPT !.rnode = [has |-> TRUE, nid |-> "self", meta |-> "x"]], res |-> "ok"]
    [] c.op = "node-rm" -> [st |-> DeregNode(s), res |-> "ok"]

---------------------------------------------------------------------------
(* updateSyncState: two reads, then the diff under the lock *)
UpdateSyncState(s, cui) ==
  LET svc(id) ==
        IF ~Has(s.rsvcs, id) THEN [s.svcs[id] EXCEPT !.ins = FALSE]                 \* local only: push later
        ELSE IF ~Has(s.svcs, id) THEN SvcMarker(id)                                  \* remote only: deregister later
        ELSE LET e == s.svcs[id]  r == s.rsvcs[id] IN
             IF e.del THEN e
             ELSE LET e1 == [e EXCEPT !.tag = IF e.eto THEN r.tag ELSE @,            \* EnableTagOverride: take the server's tags
                                      !.cva = IF r.cva # 0 THEN r.cva ELSE @]        \* merge consul- tagged addresses
                  IN [e1 EXCEPT !.ins = IsSameSvc(e1, r)]
      chk(id) ==
        IF ~Has(s.rchks, id) THEN [s.chks[id] EXCEPT !.ins = FALSE]
        ELSE IF ~Has(s.chks, id) THEN ChkMarker(id)
        ELSE LET e == s.chks[id]  r == s.rchks[id] IN
             IF e.del THEN e
             ELSE [e EXCEPT !.ins = IF cui /\ e.defer THEN IsSameChk([e EXCEPT !.output = ""], [r EXCEPT !.output = ""])
                                    ELSE IsSameChk(e, r)]
      sids == DOMAIN s.svcs \cup {id \in DOMAIN s.rsvcs : id \notin ManagedSvc}
      cids == DOMAIN s.chks \cup {id \in DOMAIN s.rchks : id \notin ManagedChk}
  IN [s EXCEPT !.nis = IF NodeSame(s.rnode) THEN @ ELSE FALSE,
               !.svcs = [id \in sids |-> svc(id)],
               !.chks = [id \in cids |-> chk(id)]]

---------------------------------------------------------------------------
(* SyncChanges: one RPC per pending entry; its outcome (ok / err / denied) is chosen per call.     *)
(* A call is [m, k, id]: m = reg|dereg, k = n|s|c.                                                   *)
Call(m, k, id) == [m |-> m, k |-> k, id |-> id]
NodeCall == Call("reg", "n", "")
PendSvcs(s) == {id \in DOMAIN s.svcs : s.svcs[id].del \/ ~s.svcs[id].ins}
PendChks(s) == {id \in DOMAIN s.chks : s.chks[id].del \/ ~s.chks[id].ins}
SvcCall(s, id) == Call(IF s.svcs[id].del THEN "dereg" ELSE "reg", "s", id)
ChkCall(s, id) == Call(IF s.chks[id].del THEN "dereg" ELSE "reg", "c", id)
\* syncService: out-of-sync checks of the service with the same token ride on its registration
Piggy(s, id) == {c \in DOMAIN s.chks : LET x == s.chks[c] IN ~x.del /\ ~x.ins /\ x.svc = id /\ x.tok = s.svcs[id].tok}
\* syncCheck: "Pull in the associated service if any"
PulledSvc(s, cid) == LET x == s.chks[cid] IN IF x.svc # "" /\ Has(s.svcs, x.svc) /\ ~s.svcs[x.svc].del THEN x.svc ELSE ""

\* deleteService: "service deregister also deletes associated checks" - the model drops the pending deregistrations of
\* the checks that LOCALLY belong to the service (the code did so until bccac55; since then it keeps them and the check
\* loop of the same pass issues them - AntiEntropyTrace accepts both).  Whether dropping was right (the catalog may hold
\* such a check under another service, where the cascade does not reach it) is not decided here but by
\* DeregNotForgotten at the end of the step: another call of the same pass may still remove the row.
PrunedBy(s, id) == {c \in DOMAIN s.chks : s.chks[c].del /\ s.chks[c].has /\ s.chks[c].svc = id}

\* the result class the servers give when the harness does not inject a failure
ServerAccepts(s, call) ==
  IF call.m = "reg" /\ call.k = "c"
  THEN LET p == PulledSvc(s, call.id) IN RegOK(s, p # "", IF p # "" THEN s.svcs[p] ELSE NoSvc, {s.chks[call.id]})
  ELSE TRUE
Got(s, call, inj) == IF Cls(inj) # "ok" THEN Cls(inj) ELSE IF ServerAccepts(s, call) THEN "ok" ELSE "err"

\* syncNodeInfo / deleteService / syncService / deleteCheck / syncCheck with result class o
ApplyRpc(s, call, o) ==
  CASE call.k = "n" ->
         IF o = "ok" THEN [RegApply(s, FALSE, FALSE, NoSvc, {}) EXCEPT !.nis = TRUE]
         ELSE IF o = "denied" THEN [s EXCEPT !.nis = TRUE] ELSE s
    [] call.k = "s" /\ call.m = "dereg" ->
         IF o = "ok" THEN [DeregSvc(s, call.id) EXCEPT !.svcs = Del(@, {call.id}), !.chks = Del(@, PrunedBy(s, call.id))]
         ELSE IF o = "denied" THEN [s EXCEPT !.svcs[call.id].ins = TRUE] ELSE s
    [] call.k = "s" /\ call.m = "reg" ->
         LET pg == Piggy(s, call.id)
             mark(x) == [x EXCEPT !.svcs[call.id].ins = TRUE,
                                  !.chks = [c \in DOMAIN @ |-> IF c \in pg THEN [@[c] EXCEPT !.ins = TRUE] ELSE @[c]]]
         IN IF o = "ok" THEN [mark(RegApply(s, s.nis, TRUE, s.svcs[call.id], {s.chks[c] : c \in pg})) EXCEPT !.nis = TRUE]
            ELSE IF o = "denied" THEN mark(s) ELSE s
    [] call.k = "c" /\ call.m = "dereg" ->
         IF o = "ok" THEN [DeregChk(s, call.id) EXCEPT !.chks = Del(@, {call.id})]
         ELSE IF o = "denied" THEN [s EXCEPT !.chks[call.id].ins = TRUE] ELSE s
    [] call.k = "c" /\ call.m = "reg" ->
         LET s0 == [s EXCEPT !.chks[call.id].defer = FALSE]          \* DeferCheck.Stop() before the call
             p == PulledSvc(s, call.id)
         IN IF o = "ok" THEN [RegApply(s0, s.nis, p # "", IF p # "" THEN s.svcs[p] ELSE NoSvc, {s0.chks[call.id]})
                                EXCEPT !.chks[call.id].ins = TRUE, !.nis = TRUE]
            ELSE IF o = "denied" THEN [s0 EXCEPT !.chks[call.id].ins = TRUE] ELSE s0

\* entries a call (tries to) bring(s) to the catalog / remove from it: <<kind, id>>
Covered(s, call) ==
  CASE call.k = "n" -> {<<"n", "">>}
    [] call.k = "s" /\ call.m = "reg" -> {<<"s", call.id>>} \cup {<<"c", c>> : c \in Piggy(s, call.id)}
    [] call.k = "c" /\ call.m = "reg" -> {<<"c", call.id>>}
    [] OTHER -> {<<call.k, call.id>>}

\* which calls SyncChanges may issue next: node info first (and nothing else after its failure), then every
\* pending service, then every pending check - within a phase in ANY order (Go map iteration)
NextCalls(s, called, aborted) ==
  IF aborted THEN {}
  ELSE IF ~s.nis THEN (IF NodeCall \in called THEN {} ELSE {NodeCall})
  ELSE LET ps == {SvcCall(s, id) : id \in PendSvcs(s)} \ called IN
       IF ps # {} THEN ps ELSE {ChkCall(s, id) : id \in PendChks(s)} \ called

\* Every way SyncChanges can run from s: set of [st, calls (sequence of [call, inj, got, cov]), aborted]
RECURSIVE SyncRuns(_, _, _, _)
SyncRuns(s, called, log, Outcomes) ==
  LET aborted == log # <<>> /\ log[Len(log)].call.k = "n" /\ log[Len(log)].got = "err"
      nc == NextCalls(s, called, aborted)
  IN IF nc = {} THEN {[st |-> s, calls |-> log, aborted |-> aborted]}
     ELSE UNION { UNION { LET g == Got(s, c, o) IN
                          SyncRuns(ApplyRpc(s, c, g), called \cup {c}, Append(log, [call |-> c, inj |-> o, got |-> g, cov |-> Covered(s, c)]), Outcomes)
                          : o \in Outcomes } : c \in nc }

---------------------------------------------------------------------------
(* properties, as predicates over (pre, post) of one step so that they can be evaluated on model states and on   *)
(* recorded implementation states alike                                                                          *)
Ents(s) == {<<"s", id>> : id \in DOMAIN s.svcs} \cup {<<"c", id>> : id \in DOMAIN s.chks}
LocalOf(s, x) == IF x[1] = "s" THEN s.svcs[x[2]] ELSE s.chks[x[2]]
Marked(s, x) == x \in Ents(s) /\ LocalOf(s, x).ins /\ ~LocalOf(s, x).del
\* the catalog holds the entry's definition
Holds(s, x) == IF x[1] = "s" THEN Has(s.rsvcs, x[2]) /\ SvcEq(s.svcs[x[2]], s.rsvcs[x[2]])
               ELSE Has(s.rchks, x[2]) /\ ChkEq(s.chks[x[2]], s.rchks[x[2]])

\* NoFalseInSync: a step that (re)marks an entry in sync - newly, or any entry when the step re-derives all flags
\* (a full sync whose reads succeeded) - must leave it in the catalog, unless an ACL refusal of this step explains it.
NoFalseInSync(pre, post, fresh, denied) ==
  /\ \A x \in Ents(post) : Marked(post, x) /\ (fresh \/ ~Marked(pre, x)) /\ x \notin denied => Holds(post, x)
  /\ post.nis /\ (fresh \/ ~pre.nis) /\ <<"n", "">> \notin denied => NodeSame(post.rnode)

\* Converged: the catalog rows of the node are exactly the local registrations
Converged(s) ==
  /\ NodeSame(s.rnode)
  /\ \A x \in Ents(s) : ~LocalOf(s, x).del /\ Holds(s, x)
  /\ \A id \in DOMAIN s.rsvcs : Has(s.svcs, id) \/ id \in ManagedSvc
  /\ \A id \in DOMAIN s.rchks : Has(s.chks, id) \/ id \in ManagedChk

\* DeregNotForgotten: a pending deregistration stays pending until the catalog row is gone
\* (readded = entries the step registers again locally)
DeregNotForgotten(pre, post, readded) ==
  \A x \in Ents(pre) \ readded :
     LocalOf(pre, x).del /\ (IF x[1] = "s" THEN Has(pre.rsvcs, x[2]) ELSE Has(pre.rchks, x[2]))
       => (x \in Ents(post) /\ LocalOf(post, x).del) \/ (IF x[1] = "s" THEN ~Has(post.rsvcs, x[2]) ELSE ~Has(post.rchks, x[2]))

\* entries a local command registers (again)
Readded(c) == IF c.t = "add-svc" THEN {<<"s", c.id>>} \cup {<<"c", c.chks[i].id>> : i \in DOMAIN c.chks}
              ELSE IF c.t = "add-chk" THEN {<<"c", c.id>>} ELSE {}

\* what a full sync has to repair
Mismatch(s, x) ==
  IF x \in Ents(s)
  THEN IF LocalOf(s, x).del THEN (IF x[1] = "s" THEN Has(s.rsvcs, x[2]) ELSE Has(s.rchks, x[2])) ELSE ~Holds(s, x)
  ELSE IF x[1] = "s" THEN Has(s.rsvcs, x[2]) /\ x[2] \notin ManagedSvc ELSE Has(s.rchks, x[2]) /\ x[2] \notin ManagedChk
AllEnts(s) == Ents(s) \cup {<<"s", id>> : id \in DOMAIN s.rsvcs} \cup {<<"c", id>> : id \in DOMAIN s.rchks}
\* DeniedRetried: a full sync (reads ok, not cut short by a failing node-info call) issues a call for every entry that
\* differs from the catalog - in particular for those a previous refusal left marked in sync - or the difference is gone
DeniedRetried(pre, post, attempted) ==
  \A x \in AllEnts(pre) : Mismatch(pre, x) => x \in attempted \/ ~Mismatch(post, x)
=============================================================================
