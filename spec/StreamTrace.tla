---------------------------- MODULE StreamTrace ----------------------------
(* Trace validation for the Stream specification (DESIGN.md 2.2, C11).          *)
(* trace.ndjson holds one event per command that the harness h-stream imposed   *)
(* on the REAL stream.EventPublisher / fsm.FSM / state.Store / views:           *)
(*    [cmd, res, post, (pre)]   pre/post = projection of the real state         *)
(* (publishCh shadow, topic buffers, cached snapshots, what each subscription   *)
(* has buffered, each materialized view).  Every step is judged locally:        *)
(*   Conform   Op(pre_impl, cmd) of Stream.tla explains (res_impl, post_impl),  *)
(*             for the code as it is or for a property-conforming variant       *)
(*   the property predicates of Stream.tla, evaluated on the RECORDED data:     *)
(*             the real view against the real direct query result               *)
(* A failed predicate is printed as <<"REJECT", line, {names}>>; the step is    *)
(* still consumed and the next step starts from the implementation's own state. *)
EXTENDS Stream, Json

Trace == ndJsonDeserialize("trace.ndjson")
VARIABLE l

AbsCl(x) == [state |-> x.state, live |-> x.live, topic |-> x.topic, subj |-> x.subj, tok |-> x.tok, pend |-> x.pend,
             snapidx |-> x.snapidx, ridx |-> x.ridx, view |-> ToSet(x.view), vidx |-> x.vidx, mode |-> x.mode, acc |-> x.acc]
Abs(j) ==
  [queue |-> [i \in DOMAIN j.queue |-> [idx |-> j.queue[i].idx, evs |-> j.queue[i].evs, toks |-> ToSet(j.queue[i].toks), n |-> j.queue[i].n]],
   tbs |-> ToSet(j.tbs),
   cache |-> {[topic |-> e.topic, subj |-> e.subj, pend |-> e.pend] : e \in ToSet(j.cache)},
   cl |-> [c \in DOMAIN j.cl |-> AbsCl(j.cl[c])],
   ttl |-> j.ttl, ridx |-> j.ridx, wild |-> ToSet(j.wild), idx |-> j.idx, qlen |-> j.qlen,
   deny |-> [t \in DOMAIN j.deny |-> ToSet(j.deny[t])]]

Pre(i) == IF "pre" \in DOMAIN Trace[i] THEN Abs(Trace[i].pre) ELSE Abs(Trace[i - 1].post)

F(name, ok) == IF ok THEN {} ELSE {name}

\* equality of the parts of the state the operators of Stream.tla define
StEq(a, b) == a.queue = b.queue /\ a.tbs = b.tbs /\ a.cache = b.cache /\ a.cl = b.cl

\* A snapshot is compared as the SET of its events in front of end-of-snapshot (the order and the
\* grouping into items is the snapshot handler's business, the specification is silent about it);
\* everything from end-of-snapshot on is compared item by item.
CoreEv(e) == [op |-> e.op, id |-> e.id, v |-> e.v, ak |-> e.ak]
CoreItem(it) == [k |-> it.k, idx |-> it.idx, evs |-> [i \in DOMAIN it.evs |-> CoreEv(it.evs[i])]]
EosPos(p) == IF \E i \in DOMAIN p : p[i].k = "eos" THEN CHOOSE i \in DOMAIN p : p[i].k = "eos" /\ \A j \in 1..(i - 1) : p[j].k # "eos" ELSE 0
NormPend(p) ==
  LET n == EosPos(p) IN
  IF n = 0 THEN [nstf |-> 0, snap |-> {}, rest |-> [i \in DOMAIN p |-> CoreItem(p[i])]]
  ELSE [nstf |-> Cardinality({i \in 1..(n - 1) : p[i].k = "nstf"}),
        snap |-> UNION {{[idx |-> p[i].idx, ev |-> CoreEv(p[i].evs[j])] : j \in DOMAIN p[i].evs} : i \in {i \in 1..(n - 1) : p[i].k = "ev"}},
        rest |-> [i \in 1..(Len(p) - n + 1) |-> CoreItem(p[n + i - 1])]]
ClEqN(a, b) == [a EXCEPT !.pend = <<>>] = [b EXCEPT !.pend = <<>>] /\ NormPend(a.pend) = NormPend(b.pend)
CacheN(S) == {[topic |-> e.topic, subj |-> e.subj, pend |-> NormPend(e.pend)] : e \in S}

ResEq(a, b) ==
  /\ a.k = b.k
  /\ a.k = "closed" => a.why = b.why
  /\ a.k = "data" => a.item = b.item

RowsOf(q) == ToSet(q.rows)
\* the recorded direct query results "at the delivered index" (harness DirectAt): the state after the
\* last write with a raft index <= vidx, and every state whose direct query reported index vidx
\* ... each restricted to what the subscriber's token may read
Cands(s, tok, d) == {ReadableRows(s, tok, RowsOf(c)) : c \in ToSet(d.cands)}

Verdict(i) ==
  LET e    == Trace[i]
      pre  == Pre(i)
      post == Abs(e.post)
      c    == e.cmd
  IN
  F("QueueLen", Len(post.queue) = post.qlen)
  \cup
  CASE c.t = "commit" ->
         \* txn.Commit -> Publish: the batches of this raft index are queued, nothing else moves
         LET k == Len(post.queue) - Len(pre.queue) IN
         F("Conform", /\ k = e.res.n
                      /\ IF k = 0 THEN StEq(pre, post)
                         ELSE IF k = 1 THEN StEq(EnqueueOp(pre, Last(post.queue)), post) /\ Last(post.queue).idx = c.idx
                         ELSE k > 1 /\ SubSeq(post.queue, 1, Len(pre.queue)) = pre.queue /\ post.tbs = pre.tbs
                              /\ post.cache = pre.cache /\ post.cl = pre.cl)
    [] c.t = "drain" ->
         F("Conform", StEq(DrainOp(pre), post))
         \cup F("AclCloses", \A d \in DOMAIN pre.cl :
                               (pre.queue # <<>> /\ pre.cl[d].state = "open" /\ pre.cl[d].tok \in Head(pre.queue).toks)
                                 => post.cl[d].state # "open")
    [] c.t = "sub" ->
         LET exp == SubscribeOp(pre, c.c, c.topic, c.skey, c.tok, c.fromidx, c.q)
             y == post.cl[c.c]
         IN F("Conform", /\ e.res.ok
                         /\ exp.queue = post.queue /\ exp.tbs = post.tbs /\ CacheN(exp.cache) = CacheN(post.cache)
                         /\ \A d \in DOMAIN post.cl : IF d = c.c THEN ClEqN(exp.cl[d], y) ELSE exp.cl[d] = post.cl[d])
            \* a subscriber whose request to resume was granted keeps its view: it must be the state at its index
            \cup F("ViewExact", e.res.ok => ViewExact(y, Cands(post, y.tok, e.res.direct)))
    [] c.t = "next" ->
         LET x == pre.cl[c.c]
             y == post.cl[c.c]
             delivered == e.res.k = "data"
         IN F("Conform", \E g \in Variants : LET r == NextOp(pre, c.c, g) IN ResEq(r.res, e.res) /\ StEq(r.st, post))
            \cup F("ViewExact", delivered => ViewExact(y, Cands(post, y.tok, e.res.direct)))
            \cup F("IdxMonotone", delivered => IdxMonotone(x, y))
            \cup F("NoSkip", NoSkip(post, y, ReadableRows(post, y.tok, RowsOf(e.res.cur))))
            \cup F("ClosedNeverData", ClosedNeverData(x, e.res))
    \* the buffer a subscription was spliced onto exists for as long as the subscription holds its reference (freeBuf has not
    \* run): UnsubOp is defined on such states only; a recorded state without it is rejected under a name of its own
    [] c.t = "unsub" -> IF \E t \in pre.tbs : Same(t, pre.cl[c.c]) THEN F("Conform", StEq(UnsubOp(pre, c.c), post))
                        ELSE {"SubscriberBufferLive"}
    [] c.t = "expire" -> F("Conform", StEq(ExpireOp(pre, c.topic, c.skey), post))
    [] c.t = "restore" ->
         F("Conform", post.ridx = c.idx /\ \E g \in Variants : StEq(RefreshOp(pre, g), post))
         \cup F("RestoreCloses", \A d \in DOMAIN post.cl : post.cl[d].state # "open")
    [] OTHER -> {"UnknownCommand"}

Init == l = 1
Next == /\ l <= Len(Trace)
        /\ LET v == Verdict(l) IN IF v = {} THEN TRUE ELSE PrintT(<<"REJECT", l, v>>)
        /\ l' = l + 1
Spec == Init /\ [][Next]_l
=============================================================================
