----------------------------- MODULE PeeringMC -----------------------------
(* Bounded instance of Peering for exhaustive checking (Peering_mc*.cfg) and  *)
(* for behaviour generation (hist + Emit, Peering_gen*.cfg).                  *)
(*   Profile "upd"  : reconciliation of (p1, web) in depth - 2 nodes shared   *)
(*                    with api, node-level and service-level checks, the same *)
(*                    node / instance / check names under local and p2        *)
(*   Profile "list" : exported-service lists with sidecar-proxy twins         *)
(*   Profile "exp"  : exporter, every exported-services config over           *)
(*                    {web, api, consul, "*"} x consumer subsets              *)
(* R1..R3 = richness of the update alphabet at depth 1..3.                    *)
EXTENDS Peering, Json

CONSTANTS Profile, MaxDepth, R1, R2, R3

VARIABLES st, hist
vars == <<st, hist>>

P1 == "p1"
P2 == "p2"
A1 == "10.0.0.1"
A2 == "10.0.0.2"
WSP == "web-sidecar-proxy"
ASP == "api-sidecar-proxy"
TwinMap == [web |-> WSP, api |-> ASP, ghost |-> "ghost-sidecar-proxy"]
ChkId == [w1 |-> "w1c", w2 |-> "w2c", a1 |-> "a1c", wp1 |-> "wp1c", ap1 |-> "ap1c", d1 |-> "d1c"]
InstId == [web |-> "w1", api |-> "a1"] @@ (WSP :> "wp1") @@ (ASP :> "ap1")

Stat(k) == IF k = 1 THEN "passing" ELSE "critical"
NChk(k) == IF k = 0 THEN {} ELSE {[cid |-> "nc", st |-> Stat(k)]}
Inst(id, ver, k) == [id |-> id, ver |-> ver, schk |-> IF k = 0 THEN {} ELSE {[cid |-> ChkId[id], st |-> Stat(k)]}]

(* ---------------- profile "upd" ---------------- *)
WebInstSets(r) ==
  CASE r = 0 -> {{Inst("w1", "1", 0)}, {Inst("w1", "1", 2)}, {Inst("w2", "1", 0)}}
    [] r = 1 -> {{Inst("w1", "1", 0)}, {Inst("w1", "1", 1)}, {Inst("w1", "1", 2)}, {Inst("w2", "1", 0)},
                 {Inst("w1", "1", 1), Inst("w2", "1", 0)}}
    [] OTHER -> {{Inst("w1", "1", k)} : k \in 0..2} \cup {{Inst("w1", "2", 0)}, {Inst("w2", "1", 0)}}
                \cup {{Inst("w1", "1", k), Inst("w2", "1", 0)} : k \in 0..2}
NChkOpts(r) == IF r >= 2 THEN 0..2 ELSE 0..1
AddrOpts(r) == IF r >= 2 THEN {A1, A2} ELSE {A1}
NodeOpts(n, r) ==       \* {} = node absent from the snapshot, otherwise a singleton entry set
  {{}} \cup {{[node |-> n, addr |-> a, nchk |-> NChk(k), insts |-> S]} : a \in AddrOpts(r), k \in NChkOpts(r), S \in WebInstSets(r)}
WebSnaps(r) == {x \cup y : x \in NodeOpts("n1", r), y \in NodeOpts("n2", r)}
ApiNodeOpts(n) == {{}} \cup {{[node |-> n, addr |-> A1, nchk |-> NChk(k), insts |-> {Inst("a1", "1", 0)}]} : k \in 0..1}
ApiSnaps == {x \cup y : x \in ApiNodeOpts("n1"), y \in ApiNodeOpts("n2")}
P2Snaps == {{}, {[node |-> "n1", addr |-> A2, nchk |-> {}, insts |-> {Inst("w1", "1", 0)}]},
            {[node |-> "n1", addr |-> A2, nchk |-> NChk(1), insts |-> {Inst("w1", "1", 2)}],
             [node |-> "n2", addr |-> A2, nchk |-> {}, insts |-> {Inst("w1", "1", 0)}]}}

Upd(p, svc, snap) == [t |-> "upd", peer |-> p, svc |-> svc, snap |-> snap]
Lst(p, names) == [t |-> "list", peer |-> p, names |-> names, twin |-> TwinMap]

CmdsUpd(r) ==
       {Upd(P1, "web", s) : s \in WebSnaps(r)}
  \cup {Upd(P1, "api", s) : s \in ApiSnaps}
  \cup {Upd(P2, "web", s) : s \in P2Snaps}
  \cup {Lst(P1, ns) : ns \in SUBSET {"web", "api"}}
  \cup {Lst(P2, {}), Lst(P2, {"web"})}

(* prior state: the same node, instance and check names under local and under p2 *)
SeedUpd ==
  [nodes |-> {[peer |-> Local, node |-> "n1", addr |-> "10.0.0.9"], [peer |-> Local, node |-> "n2", addr |-> "10.0.0.9"],
              [peer |-> P2, node |-> "n1", addr |-> "10.0.0.8"]},
   svcs  |-> {[peer |-> Local, node |-> "n1", id |-> "w1", name |-> "web", ver |-> "9"],
              [peer |-> Local, node |-> "n2", id |-> "a1", name |-> "api", ver |-> "9"],
              [peer |-> P2, node |-> "n1", id |-> "w1", name |-> "web", ver |-> "8"],
              [peer |-> P2, node |-> "n1", id |-> "a1", name |-> "api", ver |-> "8"]},
   chks  |-> {[peer |-> Local, node |-> "n1", cid |-> "nc", sid |-> "", st |-> "passing"],
              [peer |-> Local, node |-> "n1", cid |-> "w1c", sid |-> "w1", st |-> "passing"],
              [peer |-> P2, node |-> "n1", cid |-> "nc", sid |-> "", st |-> "critical"],
              [peer |-> P2, node |-> "n1", cid |-> "w1c", sid |-> "w1", st |-> "passing"]}]

(* ---------------- profile "list" ---------------- *)
Simple(svc, ns) == {[node |-> n, addr |-> A1, nchk |-> {}, insts |-> {Inst(InstId[svc], "1", 0)}] : n \in ns}
CmdsList ==
       {Upd(P1, s, Simple(s, ns)) : s \in {"web", WSP, "api", ASP}, ns \in SUBSET {"n1", "n2"}}
  \cup {Upd(P2, "web", Simple("web", {"n1"})), Upd(P2, WSP, Simple(WSP, {"n1"}))}
  \cup {Lst(P1, ns) : ns \in SUBSET {"web", "api", "ghost"}}
  \cup {Lst(P2, {}), Lst(P2, {"web"})}
SeedList ==
  [nodes |-> {[peer |-> Local, node |-> "n1", addr |-> "10.0.0.9"]},
   svcs  |-> {[peer |-> Local, node |-> "n1", id |-> "w1", name |-> "web", ver |-> "9"],
              [peer |-> Local, node |-> "n1", id |-> "ap1", name |-> ASP, ver |-> "9"]},
   chks  |-> {}]

(* ---------------- profile "exp" ---------------- *)
ExpNames == {"web", "api", ConsulService, Wildcard}
ExpPeers == {P1, P2}
Cfgs ==       \* at most one entry per name; consumers = non-empty subset of the peers
  {{[name |-> n, peers |-> f[n]] : n \in {m \in ExpNames : f[m] # {}}} : f \in [ExpNames -> SUBSET ExpPeers]}
LSvcAll == {[name |-> "web", kind |-> ""], [name |-> "api", kind |-> ""], [name |-> ConsulService, kind |-> ""],
            [name |-> WSP, kind |-> "connect-proxy"]}
CmdsExp == {[t |-> "export", cfg |-> c, lsvcs |-> l, peer |-> p, offered |-> Exported(c, l, p)]
              : c \in Cfgs, l \in SUBSET LSvcAll, p \in ExpPeers}

(* ---------------- profile "e2e" ---------------- *)
(* state = [i : importer catalog, cfg, x : exporter's local catalog, prev : what was exported     *)
(* before the last command].  prev is a history variable: it makes "a catalog change of a service *)
(* that the last config write swapped out" a transition of its own in the generated behaviours.   *)
C1 == "c1"
C2 == "c2"
FlatId == [w1 |-> "w1:overall-check", a1 |-> "a1:overall-check", d1 |-> "d1:overall-check"]
XReg(n, id, name, ver, s, ns) ==
  [t |-> "xreg", peer |-> P1, consumer |-> C1, node |-> n, addr |-> A1, id |-> id, name |-> name, cid |-> ChkId[id],
   ver |-> ver, st |-> s, nst |-> ns]
XDereg(n, id, name) == [t |-> "xdereg", peer |-> P1, consumer |-> C1, node |-> n, id |-> id, name |-> name]
XCfg(c) == [t |-> "xcfg", peer |-> P1, consumer |-> C1, cfg |-> c]
E2ENames(r) == IF r = 0 THEN {"web", "api"} ELSE {"web", "api", "db"}
\* every replacement of the exported set in ONE write; an entry for the other consumer is always mixed in
CfgOf(E, w) == {[name |-> n, peers |-> {C1}] : n \in E} \cup {[name |-> "web", peers |-> {C2}]}
                 \cup (IF w THEN {[name |-> Wildcard, peers |-> {C1}]} ELSE {})
CmdsE2E(r) ==
       {XCfg(CfgOf(E, w)) : E \in SUBSET E2ENames(r), w \in (IF r = 0 THEN {FALSE} ELSE BOOLEAN)}
  \cup {XReg("n1", "w1", "web", "1", s, ns) : s \in (IF r = 0 THEN {"passing", "critical"} ELSE {"passing", "critical", "none"}),
                                             ns \in (IF r = 0 THEN {"none"} ELSE {"none", "critical"})}
  \cup {XReg("n1", "a1", "api", v, "passing", "none") : v \in {"1", "2"}}
  \cup (IF r = 0 THEN {} ELSE {XReg("n2", "d1", "db", "1", s, "none") : s \in {"passing", "warning"}})
  \cup {XDereg("n1", "w1", "web"), XDereg("n1", "a1", "api")}
  \cup (IF r = 0 THEN {} ELSE {XDereg("n2", "d1", "db")})
CmdsE2E0 == CmdsE2E(0)
CmdsE2E1 == CmdsE2E(1)
XSeedCmds == <<XReg("n1", "w1", "web", "1", "passing", "none"), XReg("n1", "a1", "api", "1", "passing", "none")>>
SeedE2E ==     \* the importer's own data: the same names under local and under another peer
  [nodes |-> {[peer |-> Local, node |-> "n1", addr |-> "10.0.0.9"], [peer |-> P2, node |-> "n1", addr |-> "10.0.0.8"]},
   svcs  |-> {[peer |-> Local, node |-> "n1", id |-> "w1", name |-> "web", ver |-> "9"],
              [peer |-> P2, node |-> "n1", id |-> "w1", name |-> "web", ver |-> "8"],
              [peer |-> P2, node |-> "n1", id |-> "a1", name |-> "api", ver |-> "8"]},
   chks  |-> {[peer |-> Local, node |-> "n1", cid |-> "nc", sid |-> "", st |-> "passing"],
              [peer |-> P2, node |-> "n1", cid |-> "w1c", sid |-> "w1", st |-> "critical"]}]
ApplyE2E(s, c) ==
  LET x2 == ApplyX(s.x, c)
      cfg2 == IF c.t = "xcfg" THEN c.cfg ELSE s.cfg
  IN [i |-> Sync(cfg2, x2, s.i, P1, C1, FlatId, TwinMap), cfg |-> cfg2, x |-> x2, prev |-> ExpSet(s.cfg, s.x, C1)]
InitE2E == [i |-> Seed(EmptyCat, SeedE2E), cfg |-> {}, x |-> ApplyXSeq(EmptyCat, XSeedCmds), prev |-> {}]

(* ---------------- behaviours ---------------- *)
Rich(d) == IF d = 1 THEN R1 ELSE IF d = 2 THEN R2 ELSE R3
\* zero-arity definitions are evaluated once by TLC and cached
CmdsUpd0 == CmdsUpd(0)
CmdsUpd1 == CmdsUpd(1)
CmdsUpd2 == CmdsUpd(2)
CmdsUpdR(r) == IF r = 0 THEN CmdsUpd0 ELSE IF r = 1 THEN CmdsUpd1 ELSE CmdsUpd2
Cmds(d) == CASE Profile = "upd" -> CmdsUpdR(Rich(d)) [] Profile = "list" -> CmdsList
             [] Profile = "e2e" -> (IF Rich(d) = 0 THEN CmdsE2E0 ELSE CmdsE2E1) [] OTHER -> CmdsExp
SeedRows == CASE Profile = "upd" -> SeedUpd [] Profile = "list" -> SeedList
              [] OTHER -> [nodes |-> {}, svcs |-> {}, chks |-> {}]

Init == IF Profile = "e2e"
        THEN /\ st = InitE2E
             /\ hist = <<[t |-> "seed", rows |-> SeedE2E, xrows |-> XSeedCmds, peer |-> P1, consumer |-> C1, gw |-> FALSE]>>
        ELSE /\ st = Seed(EmptyCat, SeedRows)
             \* gw: the harness also gives the local cluster an ingress gateway with a wildcard listener
             /\ hist = <<[t |-> "seed", rows |-> SeedRows, gw |-> (Profile = "list")]>>
Next == /\ Len(hist) <= MaxDepth
        /\ \E c \in Cmds(Len(hist)) :
             /\ st' = IF Profile = "e2e" THEN ApplyE2E(st, c) ELSE Apply(st, c)
             \* e2e: the command carries the abstract state it leads to (key), so that the driver can chain
             \* the generated transitions into long walks instead of replaying each from the initial state
             /\ hist' = Append(hist, IF Profile = "e2e"
                                     THEN c @@ [key |-> [cfg |-> st'.cfg, xs |-> st'.x.svcs, xc |-> st'.x.chks, prev |-> st'.prev]]
                                     ELSE c)
Spec == Init /\ [][Next]_vars

\* the depth is part of the view: with several workers the search is not strictly breadth-first and a
\* state first reached by a longer history must not hide its shallower occurrence
View == <<st, IF Profile = "exp" THEN hist ELSE <<Len(hist)>>>>
Emit == PrintT(<<"TRACE", ToJson(hist')>>)
EmitProp == [][Emit]_vars

(* ---------------- properties of the model ---------------- *)
Last == hist'[Len(hist')]
IsUpd == Last.t = "upd"
IsList == Last.t = "list"
PropWellFormed == [][IsUpd => WellFormed(Last.snap)]_vars
PropMirrorExact == [][IsUpd => MirrorExact(st', Last.peer, Last.svc, Last.snap)]_vars
PropRemoved == [][(IsUpd \/ IsList) => /\ NoOrphanChecks(st', Last.peer) /\ NodesExist(st', Last.peer)
                                       /\ (IsUpd => UnusedNodesGone(st, st', Last.peer, Last.svc, Last.snap))]_vars
PropNonInterference ==
  [][(IsUpd \/ IsList) => /\ NIOtherPeers(st, st', Last.peer) /\ NILocal(st, st', Last.peer) /\ NIRest(st, st', Last.peer)
                          /\ (IsUpd => /\ NISamePeer(st, st', Last.peer, Last.svc, Last.snap)
                                       /\ SharedNodeKept(st, st', Last.peer, Last.svc, Last.snap))]_vars
PropList == [][IsList => /\ ListPrunes(st', Last.peer, Last.names, Last.twin)
                         /\ ListKeeps(st, st', Last.peer, Last.names, Last.twin)
                         /\ ListNoEmptyNodes(st, st', Last.peer)]_vars
PropExport == [][Last.t = "export" =>
                   /\ ExportOnlyIfConsumer(Last.cfg, Last.peer, Last.offered)
                   /\ ConsulService \notin Last.offered
                   \* and nothing that has a consumer entry and exists is withheld
                   /\ \A e \in Last.cfg : (Last.peer \in e.peers /\ e.name \notin {Wildcard, ConsulService}) => e.name \in Last.offered]_vars
IsX == Last.t \in {"xcfg", "xreg", "xdereg"}
PropE2E == [][IsX => /\ E2EOnlyExported(st'.cfg, st'.x, st'.i, P1, C1) /\ E2EMirror(st'.cfg, st'.x, st'.i, P1, C1)
                     /\ E2ENodes(st'.cfg, st'.x, st'.i, P1, C1) /\ E2EChecks(st'.i, P1)
                     /\ NILocal(st.i, st'.i, P1) /\ NIOtherPeers(st.i, st'.i, P1) /\ NIRest(st.i, st'.i, P1)
                     \* and the exporter offers only what an entry names the consumer for
                     /\ ExportOnlyIfConsumer(st'.cfg, C1, ExpSet(st'.cfg, st'.x, C1))]_vars
(* idempotence: applying the same update twice changes nothing the second time *)
PropIdempotent == [][(IsUpd \/ IsList) => Apply(st', Last) = st']_vars
=============================================================================
