----------------------------- MODULE PeeringMC -----------------------------
(* Bounded instance of Peering for exhaustive checking (Peering_mc*.cfg) and  *)
(* for behaviour generation (hist + Emit, Peering_gen*.cfg).                  *)
(*   Profile "upd"  : reconciliation of (p1, web) in depth - 2 nodes shared   *)
(*                    with api, node-level and service-level checks, the same *)
(*                    node / instance / check names under local and p2        *)
(*   Profile "list" : exported-service lists with sidecar-proxy twins         *)
(*   Profile "exp"  : exporter, every exported-services config over           *)
(*                    {web, api, consul, "*"} x consumer subsets              *)
(* R1..R3 = richness of the update alphabet at depth 1..3.                    *)
EXTENDS Peering, Json

CONSTANTS Profile, MaxDepth, R1, R2, R3

VARIABLES st, hist
vars == <<st, hist>>

P1 == "p1"
P2 == "p2"
A1 == "10.0.0.1"
A2 == "10.0.0.2"
WSP == "web-sidecar-proxy"
ASP == "api-sidecar-proxy"
TwinMap == [web |-> WSP, api |-> ASP, ghost |-> "ghost-sidecar-proxy"]
ChkId == [w1 |-> "w1c", w2 |-> "w2c", a1 |-> "a1c", wp1 |-> "wp1c", ap1 |-> "ap1c"]
InstId == [web |-> "w1", api |-> "a1"] @@ (WSP :> "wp1") @@ (ASP :> "ap1")

Stat(k) == IF k = 1 THEN "passing" ELSE "critical"
NChk(k) == IF k = 0 THEN {} ELSE {[cid |-> "nc", st |-> Stat(k)]}
Inst(id, ver, k) == [id |-> id, ver |-> ver, schk |-> IF k = 0 THEN {} ELSE {[cid |-> ChkId[id], st |-> Stat(k)]}]

(* ---------------- profile "upd" ---------------- *)
WebInstSets(r) ==
  CASE r = 0 -> {{Inst("w1", "1", 0)}, {Inst("w1", "1", 2)}, {Inst("w2", "1", 0)}}
    [] r = 1 -> {{Inst("w1", "1", 0)}, {Inst("w1", "1", 1)}, {Inst("w1", "1", 2)}, {Inst("w2", "1", 0)},
                 {Inst("w1", "1", 1), Inst("w2", "1", 0)}}
    [] OTHER -> {{Inst("w1", "1", k)} : k \in 0..2} \cup {{Inst("w1", "2", 0)}, {Inst("w2", "1", 0)}}
                \cup {{Inst("w1", "1", k), Inst("w2", "1", 0)} : k \in 0..2}
NChkOpts(r) == IF r >= 2 THEN 0..2 ELSE 0..1
AddrOpts(r) == IF r >= 2 THEN {A1, A2} ELSE {A1}
NodeOpts(n, r) ==       \* {} = node absent from the snapshot, otherwise a singleton entry set
  {{}} \cup {{[node |-> n, addr |-> a, nchk |-> NChk(k), insts |-> S]} : a \in AddrOpts(r), k \in NChkOpts(r), S \in WebInstSets(r)}
WebSnaps(r) == {x \cup y : x \in NodeOpts("n1", r), y \in NodeOpts("n2", r)}
ApiNodeOpts(n) == {{}} \cup {{[node |-> n, addr |-> A1, nchk |-> NChk(k), insts |-> {Inst("a1", "1", 0)}]} : k \in 0..1}
ApiSnaps == {x \cup y : x \in ApiNodeOpts("n1"), y \in ApiNodeOpts("n2")}
P2Snaps == {{}, {[node |-> "n1", addr |-> A2, nchk |-> {}, insts |-> {Inst("w1", "1", 0)}]},
            {[node |-> "n1", addr |-> A2, nchk |-> NChk(1), insts |-> {Inst("w1", "1", 2)}],
             [node |-> "n2", addr |-> A2, nchk |-> {}, insts |-> {Inst("w1", "1", 0)}]}}

Upd(p, svc, snap) == [t |-> "upd", peer |-> p, svc |-> svc, snap |-> snap]
Lst(p, names) == [t |-> "list", peer |-> p, names |-> names, twin |-> TwinMap]

CmdsUpd(r) ==
       {Upd(P1, "web", s) : s \in WebSnaps(r)}
  \cup {Upd(P1, "api", s) : s \in ApiSnaps}
  \cup {Upd(P2, "web", s) : s \in P2Snaps}
  \cup {Lst(P1, ns) : ns \in SUBSET {"web", "api"}}
  \cup {Lst(P2, {}), Lst(P2, {"web"})}

(* prior state: the same node, instance and check names under local and under p2 *)
SeedUpd ==
  [nodes |-> {[peer |-> Local, node |-> "n1", addr |-> "10.0.0.9"], [peer |-> Local, node |-> "n2", addr |-> "10.0.0.9"],
              [peer |-> P2, node |-> "n1", addr |-> "10.0.0.8"]},
   svcs  |-> {[peer |-> Local, node |-> "n1", id |-> "w1", name |-> "web", ver |-> "9"],
              [peer |-> Local, node |-> "n2", id |-> "a1", name |-> "api", ver |-> "9"],
              [peer |-> P2, node |-> "n1", id |-> "w1", name |-> "web", ver |-> "8"],
              [peer |-> P2, node |-> "n1", id |-> "a1", name |-> "api", ver |-> "8"]},
   chks  |-> {[peer |-> Local, node |-> "n1", cid |-> "nc", sid |-> "", st |-> "passing"],
              [peer |-> Local, node |-> "n1", cid |-> "w1c", sid |-> "w1", st |-> "passing"],
              [peer |-> P2, node |-> "n1", cid |-> "nc", sid |-> "", st |-> "critical"],
              [peer |-> P2, node |-> "n1", cid |-> "w1c", sid |-> "w1", st |-> "passing"]}]

(* ---------------- profile "list" ---------------- *)
Simple(svc, ns) == {[node |-> n, addr |-> A1, nchk |-> {}, insts |-> {Inst(InstId[svc], "1", 0)}] : n \in ns}
CmdsList ==
       {Upd(P1, s, Simple(s, ns)) : s \in {"web", WSP, "api", ASP}, ns \in SUBSET {"n1", "n2"}}
  \cup {Upd(P2, "web", Simple("web", {"n1"})), Upd(P2, WSP, Simple(WSP, {"n1"}))}
  \cup {Lst(P1, ns) : ns \in SUBSET {"web", "api", "ghost"}}
  \cup {Lst(P2, {}), Lst(P2, {"web"})}
SeedList ==
  [nodes |-> {[peer |-> Local, node |-> "n1", addr |-> "10.0.0.9"]},
   svcs  |-> {[peer |-> Local, node |-> "n1", id |-> "w1", name |-> "web", ver |-> "9"],
              [peer |-> Local, node |-> "n1", id |-> "ap1", name |-> ASP, ver |-> "9"]},
   chks  |-> {}]

(* ---------------- profile "exp" ---------------- *)
ExpNames == {"web", "api", ConsulService, Wildcard}
ExpPeers == {P1, P2}
Cfgs ==       \* at most one entry per name; consumers = non-empty subset of the peers
  {{[name |-> n, peers |-> f[n]] : n \in {m \in ExpNames : f[m] # {}}} : f \in [ExpNames -> SUBSET ExpPeers]}
LSvcAll == {[name |-> "web", kind |-> ""], [name |-> "api", kind |-> ""], [name |-> ConsulService, kind |-> ""],
            [name |-> WSP, kind |-> "connect-proxy"]}
CmdsExp == {[t |-> "export", cfg |-> c, lsvcs |-> l, peer |-> p, offered |-> Exported(c, l, p)]
              : c \in Cfgs, l \in SUBSET LSvcAll, p \in ExpPeers}

(* ---------------- behaviours ---------------- *)
Rich(d) == IF d = 1 THEN R1 ELSE IF d = 2 THEN R2 ELSE R3
\* zero-arity definitions are evaluated once by TLC and cached
CmdsUpd0 == CmdsUpd(0)
CmdsUpd1 == CmdsUpd(1)
CmdsUpd2 == CmdsUpd(2)
CmdsUpdR(r) == IF r = 0 THEN CmdsUpd0 ELSE IF r = 1 THEN CmdsUpd1 ELSE CmdsUpd2
Cmds(d) == CASE Profile = "upd" -> CmdsUpdR(Rich(d)) [] Profile = "list" -> CmdsList [] OTHER -> CmdsExp
SeedRows == CASE Profile = "upd" -> SeedUpd [] Profile = "list" -> SeedList
              [] OTHER -> [nodes |-> {}, svcs |-> {}, chks |-> {}]

Init == /\ st = Seed(EmptyCat, SeedRows)
        \* gw: the harness also gives the local cluster an ingress gateway with a wildcard listener
        /\ hist = <<[t |-> "seed", rows |-> SeedRows, gw |-> (Profile = "list")]>>
Next == /\ Len(hist) <= MaxDepth
        /\ \E c \in Cmds(Len(hist)) :
             /\ st' = Apply(st, c)
             /\ hist' = Append(hist, c)
Spec == Init /\ [][Next]_vars

\* the depth is part of the view: with several workers the search is not strictly breadth-first and a
\* state first reached by a longer history must not hide its shallower occurrence
View == <<st, IF Profile = "exp" THEN hist ELSE <<Len(hist)>>>>
Emit == PrintT(<<"TRACE", ToJson(hist')>>)
EmitProp == [][Emit]_vars

(* ---------------- properties of the model ---------------- *)
Last == hist'[Len(hist')]
IsUpd == Last.t = "upd"
IsList == Last.t = "list"
PropWellFormed == [][IsUpd => WellFormed(Last.snap)]_vars
PropMirrorExact == [][IsUpd => MirrorExact(st', Last.peer, Last.svc, Last.snap)]_vars
PropRemoved == [][(IsUpd \/ IsList) => /\ NoOrphanChecks(st', Last.peer) /\ NodesExist(st', Last.peer)
                                       /\ (IsUpd => UnusedNodesGone(st, st', Last.peer, Last.svc, Last.snap))]_vars
PropNonInterference ==
  [][(IsUpd \/ IsList) => /\ NIOtherPeers(st, st', Last.peer) /\ NILocal(st, st', Last.peer) /\ NIRest(st, st', Last.peer)
                          /\ (IsUpd => /\ NISamePeer(st, st', Last.peer, Last.svc, Last.snap)
                                       /\ SharedNodeKept(st, st', Last.peer, Last.svc, Last.snap))]_vars
PropList == [][IsList => /\ ListPrunes(st', Last.peer, Last.names, Last.twin)
                         /\ ListKeeps(st, st', Last.peer, Last.names, Last.twin)
                         /\ ListNoEmptyNodes(st, st', Last.peer)]_vars
PropExport == [][Last.t = "export" =>
                   /\ ExportOnlyIfConsumer(Last.cfg, Last.peer, Last.offered)
                   /\ ConsulService \notin Last.offered
                   \* and nothing that has a consumer entry and exists is withheld
                   /\ \A e \in Last.cfg : (Last.peer \in e.peers /\ e.name \notin {Wildcard, ConsulService}) => e.name \in Last.offered]_vars
(* idempotence: applying the same update twice changes nothing the second time *)
PropIdempotent == [][(IsUpd \/ IsList) => Apply(st', Last) = st']_vars
=============================================================================
