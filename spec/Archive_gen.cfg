SPECIFICATION Spec
CONSTANTS
  MaxFaults = 2
  Tracks = TRUE
  Empties = {FALSE}
INVARIANTS InvReplay
PROPERTIES EmitProp
CHECK_DEADLOCK FALSE
