SPECIFICATION Spec
CONSTANTS
  MaxDepth = 3
  Profile = "base"
  CUI = TRUE
VIEW ViewMC
INVARIANTS InvNoFalseInSync InvConverged InvShape
PROPERTIES PropNoFalseInSync PropDeregNotForgotten PropDeniedRetried
CHECK_DEADLOCK FALSE
