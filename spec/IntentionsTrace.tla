--------------------------- MODULE IntentionsTrace ---------------------------
(* Trace validation for C13.  trace.ndjson holds one event per GROUP of write   *)
(* histories recorded from a REAL state.Store by harness/cmd/h-intent:           *)
(*   [rep, runs : << [hist, werr, obs] or [hist, werr, same : k] >>]              *)
(* every run is one history applied to a fresh store, followed by the recorded    *)
(* answers of the public read API (obs; "same: k" = byte-identical to run k).      *)
(* For every run TLC computes the SET the history denotes, I == Fold({}, hist),    *)
(* and judges the recorded answers against the functions of Intentions.tla.        *)
(* A failed predicate is printed as <<"REJECT", line, {names}>>.                    *)
EXTENDS Intentions, Json, SequencesExt

Trace == ndJsonDeserialize("trace.ndjson")
VARIABLE l

F(name, ok) == IF ok THEN {} ELSE {name}
B(b) == IF b THEN "1" ELSE "0"

\* recorded list tuple <<src, peer, dst, act, prec>> -> intention of the spec
AbsI(t) == [src |-> t[1], peer |-> t[2], dst |-> t[3], act |-> t[4]]
AbsL(q) == [k \in DOMAIN q |-> AbsI(q[k])]
AbsOp(o) == [op |-> o.op, id |-> o.id, ixn |-> [src |-> o.ixn.src, peer |-> o.ixn.peer, dst |-> o.ixn.dst, act |-> o.ixn.act]]
AbsH(h) == [k \in DOMAIN h |-> AbsOp(h[k])]

ObsOf(e, r) == IF "same" \in DOMAIN e.runs[r] THEN e.runs[e.runs[r].same].obs ELSE e.runs[r].obs

\* a list answer: exactly the expected intentions, each with the precedence number of the spec,
\* never a less specific before a more specific one
ListOK(q, S) == IsListOf(AbsL(q), S) /\ PrecSorted(AbsL(q))
PrecOK(q) == \A k \in DOMAIN q : q[k][5] = Prec(AbsI(q[k]))

BitsOf(sm, def) == B(sm.allowed) \o B(sm.perms) \o B(sm.exact) \o B(def = "allow")

JudgeObs(rep, I, o) ==
     F("list-set",   IsListOf(AbsL(o.list), I))
  \cup F("list-order", PrecSorted(AbsL(o.list)))
  \cup F("precedence-number", PrecOK(o.list) /\ (\A m \in DOMAIN o.msrc : PrecOK(o.msrc[m][3])) /\ (\A m \in DOMAIN o.mdst : PrecOK(o.mdst[m][3])))
  \* a query by source names a LOCAL service: (a) the local intentions returned are exactly BySource,
  \* (b) no intention whose source is a PEERED service of the same name is returned (authz.go IntentionMatch:
  \* SourcePeer must equal the target's peer)
  \cup F("match-source", \A m \in DOMAIN o.msrc :
            LET q == AbsL(o.msrc[m][3]) IN
            /\ {q[k] : k \in DOMAIN q} \cap {i \in I : i.peer = NOPEER} = BySource(I, o.msrc[m][1])
            /\ {q[k] : k \in DOMAIN q} \subseteq I
            /\ Cardinality({q[k] : k \in DOMAIN q}) = Len(q))
  \cup F("match-source-no-peered", \A m \in DOMAIN o.msrc : \A k \in DOMAIN o.msrc[m][3] : o.msrc[m][3][k][2] = NOPEER)
  \cup F("match-destination", \A m \in DOMAIN o.mdst : IsListOf(AbsL(o.mdst[m][3]), ByDest(I, o.mdst[m][1])))
  \cup F("match-order", (\A m \in DOMAIN o.msrc : PrecSorted(AbsL(o.msrc[m][3]))) /\ (\A m \in DOMAIN o.mdst : PrecSorted(AbsL(o.mdst[m][3]))))
  \cup F("decision",
         \A m \in DOMAIN o.dec :
           LET x == o.dec[m]
               s == [name |-> x[2], peer |-> x[3]]
           IN /\ x[6] = BitsOf(Summary(I, s, x[4], x[5], FALSE), x[5])
              /\ x[7] = BitsOf(Summary(I, s, x[4], x[5], TRUE), x[5]))
  \cup F("topology",
         \A m \in DOMAIN o.topo :
           LET x == o.topo[m] IN
           /\ ToSet(x[4]) = Topology(I, x[1], x[2] = "down", x[3], ToSet(o.cands))
           /\ Cardinality(ToSet(x[4])) = Len(x[4]))
  \cup F("authorize",
         \A m \in DOMAIN o.auth :
           LET x == o.auth[m]
               i == AbsI(o.list[x[1]])
               hit == IF x[2] = "source" THEN SrcMatches(i, [name |-> x[3], peer |-> x[4]]) ELSE DstMatches(i, x[3])
           IN x[5] = hit /\ (hit => x[6] = (i.act = "allow")))

\* the set a history denotes: name-keyed writes fold over the set, identity-addressed writes over [id, ixn]
Denoted(rep, h) == IF rep \in IdReps THEN SetOf(IdFold({}, h)) ELSE Fold({}, h)

\* every write of the history that the representation can hold is accepted by the store; an
\* identity-addressed write is accepted exactly when the spec accepts it (no such identity / key taken = refused)
RECURSIVE IdWritesOK(_, _, _, _)
IdWritesOK(J, h, werr, k) ==
  IF k > Len(h) THEN TRUE
  ELSE /\ \/ h[k].op = "remove" /\ ~IdAccepts(J, h[k])        \* removing an unknown identity: silent (not specified)
          \/ werr[k] = ~IdAccepts(J, h[k])
       /\ IdWritesOK(IdApply(J, h[k]), h, werr, k + 1)
WritesOK(rep, run) ==
  IF rep \in IdReps THEN IdWritesOK({}, AbsH(run.hist), run.werr, 1)
  ELSE \A k \in DOMAIN run.hist : Representable(rep, AbsOp(run.hist[k]).ixn) => ~run.werr[k]

Verdict(i) ==
  LET e == Trace[i]
      R == DOMAIN e.runs
      \* distinct (denoted set, recorded answers) pairs of the group
      cases == {<<Denoted(e.rep, AbsH(e.runs[r].hist)), ObsOf(e, r)>> : r \in R}
  IN
     UNION {JudgeObs(e.rep, c[1], c[2]) : c \in cases}
  \cup F("write-accepted", \A r \in R : WritesOK(e.rep, e.runs[r]))
  \* the answers (list orders included) are a function of the SET, not of the order of the writes
  \cup F("order-independent", \A c, d \in cases : c[1] = d[1] => c[2] = d[2])

Init == l = 1
Next == /\ l <= Len(Trace)
        /\ LET v == Verdict(l) IN IF v = {} THEN TRUE ELSE PrintT(<<"REJECT", l, v>>)
        /\ l' = l + 1
Spec == Init /\ [][Next]_l
=============================================================================
