------------------------------ MODULE CATrace ------------------------------
(* Trace validation for CA.tla (property C12).  trace.ndjson holds one event per command     *)
(* executed against the REAL code by harness/cmd/h-ca:  [cmd, res, pre, post]  where pre/post  *)
(* are projections of the real CA tables (roots, roots index, config, serials seen) and res   *)
(* is the projected reply (for an issued leaf: what crypto/x509 + connect.ParseCertURI read    *)
(* FROM THE CERTIFICATE).  Each event is judged on its own with CA's operators; a failed       *)
(* predicate is printed as <<"REJECT", line, {names}>> and the event is still consumed.        *)
EXTENDS CA, Json, SequencesExt

Trace == ndJsonDeserialize("trace.ndjson")
VARIABLE l

F(name, ok) == IF ok THEN {} ELSE {name}
SeqMax(sq) == FoldSeq(LAMBDA x, y : IF x > y THEN x ELSE y, 0, sq)
AbsSt(j) == [roots |-> ToSet(j.roots), ridx |-> j.ridx, cfg |-> j.cfg, seen |-> ToSet(j.seen), top |-> SeqMax(j.seen),
             active |-> j.active, signer |-> j.signer]
\* A request lists roots; the root SET it asks for is keyed by id.  When the leader rolls a rotation back the list
\* names the returning root twice - its stale stored copy (inactive) and the new active entry: the request, which
\* the store validates as "exactly one active entry", asks for that root to be ACTIVE.
RootSetOf(sq) == LET all == ToSet(sq) IN {r \in all : r.active \/ ~\E q \in all : q.id = r.id /\ q.active}
AbsCmd(c) == IF "roots" \in DOMAIN c THEN [c EXCEPT !.roots = RootSetOf(@)] ELSE c

MustRefuse(why) ==
  CASE why = "uri-count"    -> "must-refuse/uri-count"
    [] why = "email"        -> "must-refuse/email"
    [] why = "unparsable"   -> "must-refuse/unparsable"
    [] why = "kind"         -> "must-refuse/kind"
    [] why = "partition"    -> "must-refuse/partition"
    [] why = "trust-domain" -> "must-refuse/trust-domain"
    [] why = "datacenter"   -> "must-refuse/datacenter"
    [] OTHER                -> "must-refuse/scope"

\* predicates every issued leaf must satisfy, whoever it was issued to
LeafGeneric(pre, cert) ==
       F("leaf-not-ca", ~cert.isca)
  \cup F("SerialFresh", cert.serial \notin pre.seen)
  \cup F("SerialIncreasing", cert.serial > pre.top)
  \cup F("leaf-chain", cert.verifies /\ cert.issuer_active)
  \cup F("leaf-no-email", cert.emails = 0)
  \cup (IF Len(cert.ids) = 1 THEN F("leaf-trust-domain", InOwnTrustDomain(cert.ids[1])) ELSE {})

\* the identity parsed FROM THE CERTIFICATE is the identity that was authorized
LeafIdentity(id, cert) ==
  IF Len(cert.ids) # 1 THEN {"leaf-single-uri"}
  ELSE F("leaf-identity", SameIdentity(id, cert.ids[1])) \cup F("leaf-trust-domain", InOwnTrustDomain(cert.ids[1]))

SignJudge(pre, c, res, post) ==
  LET d == Decide(c.csr, ToSet(c.authz))
      issued == res.t = "issued"
  IN   (IF d.d = "refuse" THEN F(MustRefuse(d.why), ~issued) ELSE {})
  \cup F("must-issue", d.d # "issue" \/ issued)
  \cup (IF issued THEN LeafGeneric(pre, res.cert) ELSE {})
  \cup (IF issued /\ d.d # "refuse" THEN LeafIdentity(d.id, res.cert) ELSE {})
  \cup F("sign-keeps-roots", post.roots = pre.roots /\ post.cfg = pre.cfg)
  \cup F("signer-is-active", post.signer = post.active)

\* the probe leaf requested right after a (re)configuration, from the manager as it then is: it must be
\* issued (the provider in use works, whether the operation succeeded or failed) and satisfy every leaf predicate
\* against the store's ACTIVE root
ProbeJudge(pre, res) ==
  IF res.probe.t # "issued" THEN {"probe-issued"}
  ELSE LeafGeneric(pre, res.probe.cert)

\* a rotation through CAManager.UpdateConfiguration (primaryUpdateRootCA).
\*  - to a fresh root (res.target = ""): every old root stays, inactive; exactly one new root, active;
\*  - to an operator-supplied root res.target, which may be new, may be a FORMER root still in the set (rolling a
\*    rotation back) or the active root itself: afterwards the set is the old ids plus the target, the target
\*    is active and everything else inactive.
\* When a RacingRootWrite was committed in front of the manager's conditional write (res.raced) the manager must
\* either report an error and leave roots and configuration alone, or retry and rotate.  Either way exactly one
\* stored root is active afterwards and it is the root the manager signs with.
Rotated(pre, target, post) ==
  IF target = "" THEN
    LET old == {q.id : q \in pre.roots}  newr == {r \in post.roots : r.id \notin old} IN
      /\ Cardinality(newr) = 1 /\ \A r \in newr : r.active
      /\ \A q \in pre.roots : [q EXCEPT !.active = FALSE] \in post.roots
      /\ Cardinality(post.roots) = Cardinality(pre.roots) + 1
  ELSE post.roots = {[id |-> q.id, active |-> FALSE] : q \in {x \in pre.roots : x.id # target}} \cup {[id |-> target, active |-> TRUE]}

RotateJudge(pre, res, post) ==
  (IF res.t = "ok" THEN F("rotate-state", Rotated(pre, res.target, post))
   ELSE F("failed-rotate-keeps-roots", SameRootsAndConfig(pre, post) /\ post.signer = pre.signer))
  \cup F("rotate-unraced-succeeds", res.raced \/ res.t = "ok")
  \cup F("signer-is-active", post.signer = post.active)
  \cup ProbeJudge(pre, res)

\* a reconfiguration that keeps the root (CAOpSetConfig only)
ReconfigJudge(pre, res, post) ==
       F("reconfig-keeps-roots", post.roots = pre.roots)
  \cup F("signer-is-active", post.signer = post.active)
  \cup ProbeJudge(pre, res)

RootJudge(pre, c, res, post) ==
  LET r == ApplyRoot(pre, c) IN
       F("ca-res", res.ok = r.ok)
  \cup F("ca-state", post.roots = r.st.roots /\ post.ridx = r.st.ridx /\ post.cfg = r.st.cfg)
  \cup F("RootSetAtomic", RootsReplacedOrKept(pre, c, post))
  \cup F("RootSetAtomic/config-without-roots", NoConfigWithoutRoots(pre, c, post))
  \cup F("RootSetAtomic/roots-without-config", NoRootsWithoutConfig(pre, c, post))

Verdict(i) ==
  LET e == Trace[i]
      pre == AbsSt(e.pre)
      post == AbsSt(e.post)
      c == AbsCmd(e.cmd)
  IN (CASE c.t = "sign" -> SignJudge(pre, c, e.res, post)
        [] c.t = "rotate" -> RotateJudge(pre, e.res, post)
        [] c.t = "reconfig" -> ReconfigJudge(pre, e.res, post)
        [] c.t = "inc-serial" ->
             F("RootSetAtomic", RootsReplacedOrKept(pre, c, post))
             \cup (IF e.res.t = "serial" THEN F("SerialFresh", e.res.serial \notin pre.seen) \cup F("SerialIncreasing", e.res.serial > pre.top)
                   ELSE {"serial-failed"})
        [] c.t = "provider-state" -> F("RootSetAtomic", RootsReplacedOrKept(pre, c, post) /\ post.cfg = pre.cfg)
        [] OTHER -> RootJudge(pre, c, e.res, post))
     \cup F("ExactlyOneActive", ExactlyOneActive(post) \/ ~ExactlyOneActive(pre))

Init == l = 1
Next == /\ l <= Len(Trace)
        /\ LET v == Verdict(l) IN IF v = {} THEN TRUE ELSE PrintT(<<"REJECT", l, v>>)
        /\ l' = l + 1
Spec == Init /\ [][Next]_l
=============================================================================
