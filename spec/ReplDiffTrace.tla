---------------------------- MODULE ReplDiffTrace ----------------------------
(* Trace validation for C19.  trace.ndjson holds one event per replication    *)
(* round executed by harness/cmd/h-repl against the REAL code:                *)
(*   pre   everything stored in the real secondary state.Store before         *)
(*   inL   the local listing the real diff saw (FetchLocal + legacy entries)   *)
(*   inR   the remote listing it was given (real primary store, Stub())       *)
(*   last  lastRemoteIndex                                                    *)
(*   dels, ups   what diffACLType / diffConfigEntries / DiffRemoteAndLocal-   *)
(*         State returned                                                     *)
(*   cmds  the raft commands the REAL round function (replicateACLType via     *)
(*         replicateACLPolicies/Roles/Tokens, replicateConfig, IndexReplicator *)
(*         .Replicate) submitted through leaderRaftApply, in order             *)
(*   post  the real secondary store after that real round                      *)
(*   err   class of the first error the real code reported ("none")           *)
(* Each event is judged on its own with the operators of ReplDiff: the        *)
(* property is evaluated on the IMPLEMENTATION's inputs, diff and post-state, *)
(* and the returned diff is compared with the spec's step-wise walk.          *)
(* A failed predicate is printed as <<"REJECT", line, {names}>>.              *)
EXTENDS ReplDiff, SequencesExt, Json

Trace == ndJsonDeserialize("trace.ndjson")
VARIABLE l

F(name, ok) == IF ok THEN {} ELSE {name}
Stored(S) == {[id |-> o.id, c |-> o.c, h |-> o.h, lo |-> o.lo, mi |-> o.mi] : o \in S}

Verdict(i) ==
  LET e    == Trace[i]
      sec  == ToSet(e.pre)
      post == ToSet(e.post)
      s0   == InitState(e.kind, sec, e.inL, e.inR, e.last)
      fin  == Run(s0)                                   \* the spec's walk on the implementation's inputs
      L    == ToSet(e.inL)
      R    == ToSet(e.inR)
      D    == ToSet(e.dels)
      U    == ToSet(e.ups)
      env  == EnvInput(s0)
  IN
  \* "env" is not a verdict on the code: the harness fed an input outside the environment assumption
     F("env", env)
  \cup (IF ~env THEN {} ELSE
       \* the real local listing is exactly the replicated part of the real store (+ injected legacy entries)
          F("local-listing", ListingOK(s0))
       \* the hashes stored in the real objects separate the real contents (SetHash / HashConfigEntry)
     \cup F("hash-faithful", HashFaithful(L \cup R))
     \cup
       \* the diff the real code returned is the one the step-wise walk produces (as sets, nothing twice)
          F("diff-walk", D = Rng(fin.dels) /\ U = Rng(fin.ups)
                         /\ Len(e.dels) = Cardinality(D) /\ Len(e.ups) = Cardinality(U))
       \* ... and lies between what every correct diff must and may return
     \cup F("diff-sound", DiffSound(e.kind, L, R, D, U))
       \* the real store after applying the real diff: replicated set = primary's (id + content)
     \cup F("post-equals-remote", Converged(post, R))
     \cup F("local-only-untouched", LocalOnlyUntouched(sec, post, D, U))
       \* objects the diff did not name are exactly what they were (index included)
     \cup F("others-untouched", {o \in post : o.id \notin D \cup U} = {o \in sec : o.id \notin D \cup U})
     \cup F("equal-no-writes", AlreadyEqual(e.kind, L, R) => (D = {} /\ U = {} /\ post = sec /\ e.writes = 0))
     \cup F("apply-ok", e.err = "none")
       \* the model of the application agrees with the real store (content view)
     \cup F("apply-model", e.err # "none" \/ Proj(post) = Proj(ApplyRound(e.kind, sec, D, U, R).st))
       \* the raft commands the REAL round submitted (recorded from replicateACLType / replicateConfig /
       \* IndexReplicator.Replicate) delete exactly D and upsert exactly U, every id once
     \cup F("round-writes", e.err # "none" \/
              LET dl == FlattenSeq([k \in DOMAIN e.cmds |-> IF e.cmds[k].op = "delete" THEN e.cmds[k].ids ELSE <<>>])
                  ul == FlattenSeq([k \in DOMAIN e.cmds |-> IF e.cmds[k].op = "upsert" THEN e.cmds[k].ids ELSE <<>>])
              IN /\ ToSet(dl) = D /\ Len(dl) = Cardinality(D)
                 /\ ToSet(ul) = U /\ Len(ul) = Cardinality(U)
                 /\ \A k \in DOMAIN e.cmds : e.cmds[k].op \in {"delete", "upsert"} /\ e.cmds[k].ok))

Init == l = 1
Next == /\ l <= Len(Trace)
        /\ LET v == Verdict(l) IN IF v = {} THEN TRUE ELSE PrintT(<<"REJECT", l, v>>)
        /\ l' = l + 1
Spec == Init /\ [][Next]_l
=============================================================================
