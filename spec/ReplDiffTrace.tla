---------------------------- MODULE ReplDiffTrace ----------------------------
(* Trace validation for C19.  trace.ndjson holds one event per replication    *)
(* round executed by harness/cmd/h-repl against the REAL code:                *)
(*   pre   everything stored in the real secondary state.Store before         *)
(*   inL   the local listing the real diff saw (FetchLocal + legacy entries)   *)
(*   inR   the remote listing it was given (real primary store, Stub())       *)
(*   last  lastRemoteIndex                                                    *)
(*   dels, ups   what diffACLType / diffConfigEntries / DiffRemoteAndLocal-   *)
(*         State returned                                                     *)
(*   cmds  the raft commands the REAL round function (replicateACLType via     *)
(*         replicateACLPolicies/Roles/Tokens, replicateConfig, IndexReplicator *)
(*         .Replicate) submitted through leaderRaftApply, in order             *)
(*   post  the real secondary store after that real round                      *)
(*   err   class of the first error the real code reported ("none")           *)
(*   pidx  the index of the primary (below last: it went backwards)           *)
(*   ridx  the index the real round handed back                               *)
(*   fault fetch fault of the round (the batch read was answered by a lagging  *)
(*         server of the primary); post2/err2: the following fault-free round  *)
(* Each event is judged on its own with the operators of ReplDiff: the        *)
(* property is evaluated on the IMPLEMENTATION's inputs, diff and post-state, *)
(* and the returned diff is compared with the spec's step-wise walk.          *)
(* A failed predicate is printed as <<"REJECT", line, {names}>>.              *)
EXTENDS ReplDiff, SequencesExt, Json

Trace == ndJsonDeserialize("trace.ndjson")
VARIABLE l

F(name, ok) == IF ok THEN {} ELSE {name}
Stored(S) == {[id |-> o.id, c |-> o.c, h |-> o.h, lo |-> o.lo, mi |-> o.mi] : o \in S}

Verdict(i) ==
  LET e    == Trace[i]
      sec  == ToSet(e.pre)
      post == ToSet(e.post)
      \* the round as the real round function sees it: lastRemoteIndex, the primary's index (pidx), fetch fault
      s0   == RoundInit(e.kind, sec, e.inL, e.inR, e.last, e.pidx, e.fault)
      fin  == Run(s0)                                   \* the spec's walk on the implementation's inputs
      \* the diff function called on its own with lastRemoteIndex as given (dels, ups of the event)
      finD == Run(InitState(e.kind, sec, e.inL, e.inR, e.last))
      L    == ToSet(e.inL)
      R    == ToSet(e.inR)
      D    == ToSet(e.dels)
      U    == ToSet(e.ups)
      \* what the REAL round wrote (raft commands recorded from replicateACLType / replicateConfig / Replicate)
      dl   == FlattenSeq([k \in DOMAIN e.cmds |-> IF e.cmds[k].op = "delete" THEN e.cmds[k].ids ELSE <<>>])
      ul   == FlattenSeq([k \in DOMAIN e.cmds |-> IF e.cmds[k].op = "upsert" THEN e.cmds[k].ids ELSE <<>>])
      Dr   == ToSet(dl)
      Ur   == ToSet(ul)
      hit  == FaultHits(fin)                            \* the fetch fault concerns an object the round must upsert
      ok   == e.err = "none"
      env  == EnvInput(s0)
  IN
  \* "env" is not a verdict on the code: the harness fed an input outside the environment assumption
     F("env", env)
  \cup (IF ~env THEN {} ELSE
       \* the real local listing is exactly the replicated part of the real store (+ injected legacy entries)
          F("local-listing", ListingOK(s0))
       \* the hashes stored in the real objects separate the real contents (SetHash / HashConfigEntry)
     \cup F("hash-faithful", HashFaithful(L \cup R))
       \* the diff the real diff function returned is the one the step-wise walk produces (as sets, nothing twice)
     \cup F("diff-walk", D = Rng(finD.dels) /\ U = Rng(finD.ups)
                         /\ Len(e.dels) = Cardinality(D) /\ Len(e.ups) = Cardinality(U))
       \* the raft commands of the REAL round delete / upsert exactly what the walk says for this round (with the
       \* full comparison forced when the primary's index went backwards), every id once, all accepted
     \cup F("round-writes", ~ok \/ hit \/
              /\ Dr = Rng(fin.dels) /\ Len(dl) = Cardinality(Dr)
              /\ Ur = Rng(fin.ups) /\ Len(ul) = Cardinality(Ur)
              /\ \A k \in DOMAIN e.cmds : e.cmds[k].op \in {"delete", "upsert"} /\ e.cmds[k].ok)
       \* ... and lie between what every correct diff must and may return
     \cup F("diff-sound", ~ok \/ hit \/ DiffSound(e.kind, L, R, Dr, Ur))
       \* the real store after the real round: replicated set = primary's (id + content)
     \cup F("post-equals-remote", hit \/ Converged(post, R))
     \cup F("local-only-untouched", LocalOnlyUntouched(sec, post, Dr, Ur))
       \* objects the round did not name are exactly what they were (index included)
     \cup F("others-untouched", {o \in post : o.id \notin Dr \cup Ur} = {o \in sec : o.id \notin Dr \cup Ur})
     \cup F("equal-no-writes", AlreadyEqual(e.kind, L, R) => (e.cmds = <<>> /\ post = sec /\ e.writes = 0))
       \* a round without a (relevant) fetch fault reports no error
     \cup F("apply-ok", hit \/ ok)
       \* the model of the application agrees with the real store (content view)
     \cup F("apply-model", ~ok \/ hit \/ Proj(post) = Proj(ApplyRound(e.kind, sec, Dr, Ur, R).st))
       \* the index the real round handed back is honest (the next round's Consistent assumption holds)
     \cup F("index-honest", IndexHonest(post, R, ~ok, e.ridx))
       \* nothing but the primary's current versions was written
     \cup F("no-stale-body", NoStaleBody(sec, post, R))
       \* after a round with a fetch fault, the following fault-free REAL round (started from the index handed back,
       \* or from the old one after an error) makes the secondary equal to the primary
     \cup F("next-round-converges", e.fault.t = "none" \/ (e.err2 = "none" /\ Converged(ToSet(e.post2), R)))
       \* a replicated federation state remembers the primary's modify index it was copied at
     \cup F("fed-primary-index", e.kind # "fed" \/ ~ok \/
              \A o \in post : o.id \in Ur => \E r \in R : r.id = o.id /\ o.pmi = r.mi))

Init == l = 1
Next == /\ l <= Len(Trace)
        /\ LET v == Verdict(l) IN IF v = {} THEN TRUE ELSE PrintT(<<"REJECT", l, v>>)
        /\ l' = l + 1
Spec == Init /\ [][Next]_l
=============================================================================
