--------------------------------- MODULE CA ---------------------------------
(* Connect CA (property C12): "the Connect CA issues only authorized, verifiable     *)
(* identities; at all times exactly one root is active and the root set is replaced  *)
(* atomically".                                                                      *)
(*                                                                                   *)
(* Two parts, both written as pure operators so that the model checker (CAMC) and    *)
(* the trace validator (CATrace) use the very same definitions:                      *)
(*                                                                                   *)
(*  1. Decide / LeafJudge  -- CSR shape x authorizer -> issue / refuse, and what the  *)
(*     issued leaf must look like.  Transcribes the decision structure of            *)
(*       agent/consul/leader_connect_ca.go  AuthorizeAndSignCertificate,             *)
(*       SignCertificate, leader_connect_ca_ce.go validateSupportedIdentityScopes..., *)
(*       agent/connect/uri.go ParseCertURI, uri_signing.go CanSign                   *)
(*     but states the PROPERTY (where the code is laxer than the property the spec   *)
(*     keeps the property and the difference shows up as a rejected step).           *)
(*  2. ApplyRoot -- the root-set / CA-config state machine.  Transcribes             *)
(*       agent/consul/fsm/commands_ce.go ApplyConnectCAOperationFromRequest and      *)
(*       agent/consul/state/connect_ca.go CARootSetCAS / caRootSetCASTxn /           *)
(*       CASetConfig / CACheckAndSetConfig / CAIncrementProviderSerialNumber.        *)
(*                                                                                   *)
(* Abstraction of a CSR:  [uris : Seq(IdShape), dns, ips, emails : Nat]              *)
(*   IdShape = [kind, td, dc, name, enc, ap]                                          *)
(*     kind : "service" "agent" "server" "mesh-gateway" "signing" "garbage"           *)
(*     td   : how the authority part of the URI is spelled.  The HOST component equals *)
(*            the cluster's trust domain under ASCII case folding for                 *)
(*              "own" (canonical lower case), "ownUpper" (case-varied), "ownUser"     *)
(*              (user-info in front: userinfo@host)                                   *)
(*            and does NOT for "foreign" (another name) and for the spellings a URL   *)
(*            parser tolerates around the very same name: "ownPort" (host:port),      *)
(*            "ownUpperPort", "ownEmptyPort" (host:), "ownUserPort", and the odd      *)
(*            ones "ownDot" (trailing dot), "ownBracket" ([host]), "ipv6" ([::1]),    *)
(*            which a CSR parser may reject outright.                                 *)
(*     dc   : "own" "other"                                                           *)
(*     name : base name of the principal (service / node)                             *)
(*     enc  : how the principal segment is written in the URI:  "plain", "pct"        *)
(*            (percent-escaped, decodes to the base name), "case" (upper-cased: a     *)
(*            DIFFERENT name), "slash" (contains an escaped '/': a DIFFERENT name).   *)
(*            For server / mesh-gateway the principal segment is the datacenter.      *)
(*     ap   : "none" "default" "other"  (optional /ap/<partition> prefix)             *)
(* An authorizer is the set of scopes on which the token grants write:               *)
(*     [res : "service"|"node"|"mesh"|"acl", name, var]  with var in                  *)
(*     "exact" "upper" "slash" naming the concrete spelling of the rule.              *)
EXTENDS Integers, Sequences, FiniteSets, TLC

Supported == {"service", "agent", "server", "mesh-gateway"}
\* SpiffeIDSigning.CanSign: the host component must equal the trust domain exactly under ASCII case folding
OwnTds == {"own", "ownUpper", "ownUser"}
\* authority spellings that crypto/x509 may refuse to parse at all (then nothing is issued)
OddTds == {"ownDot", "ownBracket", "ipv6"}

\* the spelling of the principal that a parser (and therefore a verifier) sees
Variant(enc) == IF enc \in {"plain", "pct"} THEN "exact" ELSE IF enc = "case" THEN "upper" ELSE "slash"
ApOf(ap) == IF ap = "other" THEN "other" ELSE "default"

\* connect.ParseCertURI on the abstract shape: the identity that is authorized
Parse(s) ==
  CASE s.kind \in {"service", "agent"} ->
         [kind |-> s.kind, td |-> s.td, dc |-> s.dc, name |-> s.name, var |-> Variant(s.enc), ap |-> ApOf(s.ap)]
    [] s.kind \in {"server", "mesh-gateway"} ->
         [kind |-> s.kind, td |-> s.td, dc |-> IF Variant(s.enc) = "exact" THEN s.dc ELSE "other",
          name |-> "", var |-> "exact", ap |-> ApOf(s.ap)]
    [] OTHER ->
         [kind |-> s.kind, td |-> s.td, dc |-> "own", name |-> "", var |-> "exact", ap |-> "default"]

NoId == [kind |-> "garbage", td |-> "own", dc |-> "own", name |-> "", var |-> "exact", ap |-> "default"]

\* the ACL scope whose write permission is required for an identity
\* (ServiceWriteAllowed / NodeWriteAllowed / MeshWriteAllowed / ACLWriteAllowed)
Scope(id) ==
  CASE id.kind = "service"      -> [res |-> "service", name |-> id.name, var |-> id.var]
    [] id.kind = "agent"        -> [res |-> "node", name |-> id.name, var |-> id.var]
    [] id.kind = "mesh-gateway" -> [res |-> "mesh", name |-> "", var |-> "exact"]
    [] OTHER                    -> [res |-> "acl", name |-> "", var |-> "exact"]

Refuse(why) == [d |-> "refuse", why |-> why, id |-> NoId]

(* Decide: the property's issuing rule.  d = "issue" | "refuse" | "any".             *)
(*  "any": the statement is silent, both outcomes are accepted, but IF a leaf is      *)
(*  issued all leaf predicates apply.  That is the case for                           *)
(*   - server identities requested with acl:write (the statement only lists service, *)
(*     node and mesh scopes; the code issues; without acl:write it MUST refuse),      *)
(*   - agent identities carrying a non-default partition (CE has no partitions; the   *)
(*     code refuses them for services and gateways but not for agents),               *)
(*   - agent CSRs whose authority is one of OddTds (the CSR parser may reject them).   *)
(* Named deviation AgentCSRTrustDomainRewritten: an agent CSR may come from ANY       *)
(*  trust domain (auto-encrypt / auto-config clients do not know the cluster id yet); *)
(*  it is accepted and the leaf must then carry the CLUSTER's trust domain.           *)
Decide(csr, authz) ==
  IF Len(csr.uris) # 1 THEN Refuse("uri-count")
  ELSE IF csr.emails > 0 THEN Refuse("email")
  ELSE LET id == Parse(csr.uris[1]) IN
    IF id.kind = "garbage" THEN Refuse("unparsable")
    ELSE IF id.kind \notin Supported THEN Refuse("kind")
    ELSE IF id.ap # "default" /\ id.kind # "agent" THEN Refuse("partition")
    ELSE IF id.td \notin OwnTds /\ id.kind # "agent" THEN Refuse("trust-domain")
    ELSE IF id.dc # "own" THEN Refuse("datacenter")
    ELSE IF Scope(id) \notin authz THEN Refuse("scope")
    ELSE [d |-> IF id.kind = "server" \/ id.ap # "default" \/ id.td \in OddTds THEN "any" ELSE "issue", why |-> "", id |-> id]

\* the identity an issued leaf must carry, compared with the identity a verifier parses
\* FROM THE CERTIFICATE (cid).  Trust domain: the cluster's, host names compared case-insensitively.
SameIdentity(id, cid) ==
  /\ cid.kind = id.kind /\ cid.dc = id.dc /\ cid.name = id.name /\ cid.var = id.var /\ cid.ap = id.ap
InOwnTrustDomain(cid) == cid.td \in {"own", "ownUpper"}

MaxOf(S) == IF S = {} THEN 0 ELSE CHOOSE x \in S : \A y \in S : y <= x

(* --------------------------- root set / config machine ---------------------------- *)
(* state:  roots : set of [id, active]   ridx : index of the roots table              *)
(*         cfg   : [v, mi]  (v = "" : no configuration stored)                        *)
(*         seen  : serial numbers handed out so far                                   *)
ActiveRoots(rs) == {r \in rs : r.active}
ExactlyOneActive(s) == s.roots = {} \/ Cardinality(ActiveRoots(s.roots)) = 1
\* a root SET is keyed by id; a request listing an id twice (stale copy + new active entry) asks for the active one (CATrace RootSetOf)
ValidRootSet(rs) == Cardinality(ActiveRoots(rs)) = 1 /\ \A r \in rs : r.id # ""
\* CACheckAndSetConfig's comparison
CfgMatches(s, ccas) == IF s.cfg.v = "" THEN ccas = 0 ELSE s.cfg.mi = ccas

No(s) == [st |-> s, ok |-> "no"]
WithRoots(s, c) == [s EXCEPT !.roots = c.roots, !.ridx = c.idx]
WithCfg(s, c) == [s EXCEPT !.cfg = [v |-> c.cfg, mi |-> c.idx]]

(* ApplyRoot: one replicated CA command at index c.idx.  ok = "yes" applied, "no" not *)
(* applied (false or an error - the class is all that is compared).                   *)
(* The conditional commands are honest and the composite is all-or-nothing: that is   *)
(* the property; caRootSetCASTxn returning nil on an index mismatch is NOT modelled.   *)
ApplyRoot(s, c) ==
  CASE c.t = "set-roots" ->                      \* CAOpSetRoots -> CARootSetCAS
         IF ValidRootSet(c.roots) /\ c.cas = s.ridx THEN [st |-> WithRoots(s, c), ok |-> "yes"] ELSE No(s)
    [] c.t = "set-config" ->                     \* CAOpSetConfig -> CASetConfig / CACheckAndSetConfig
         IF c.ccas = 0 \/ CfgMatches(s, c.ccas) THEN [st |-> WithCfg(s, c), ok |-> "yes"] ELSE No(s)
    [] c.t = "set-roots-and-config" ->           \* CAOpSetRootsAndConfig
         IF ValidRootSet(c.roots) /\ c.cas = s.ridx /\ CfgMatches(s, c.ccas)
           THEN [st |-> WithCfg(WithRoots(s, c), c), ok |-> "yes"] ELSE No(s)
    [] OTHER -> No(s)

\* "the root set is replaced atomically": after a command the root set is the old one or exactly the
\* requested one; a command that does not name roots leaves them alone; the composite command
\* replaces roots and configuration together or not at all.
RootsReplacedOrKept(pre, c, post) ==
  IF c.t \in {"set-roots", "set-roots-and-config"} THEN post.roots = pre.roots \/ post.roots = c.roots
  ELSE post.roots = pre.roots
CfgReplaced(pre, c, post) == post.cfg.mi = c.idx
RootsReplaced(pre, c, post) == post.ridx = c.idx

(* RacingRootWrite: a writer outside the CAManager's lock (Server.pruneCARoots issues CAOpSetRoots through *)
(* raft on its own) commits between the manager's read of Store.CARoots and the manager's conditional     *)
(* write.  The racing command re-writes the current roots at the current index: the root set stays, only   *)
(* the index of the table moves - and the manager's CAOpSetRootsAndConfig / CAOpSetRoots is then stale.    *)
RacingRootWrite(s, idx) == ApplyRoot(s, [t |-> "set-roots", idx |-> idx, cas |-> s.ridx, roots |-> s.roots]).st

\* what a raced (or any failed) reconfiguration must leave behind: same root set, same configuration
SameRootsAndConfig(pre, post) == post.roots = pre.roots /\ post.cfg = pre.cfg

NoConfigWithoutRoots(pre, c, post) == c.t = "set-roots-and-config" /\ CfgReplaced(pre, c, post) => RootsReplaced(pre, c, post)
NoRootsWithoutConfig(pre, c, post) == c.t = "set-roots-and-config" /\ RootsReplaced(pre, c, post) => CfgReplaced(pre, c, post)
=============================================================================
