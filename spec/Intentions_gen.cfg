SPECIFICATION Spec
CONSTANTS
  Names = {"a", "b"}
  Peers = {"", "p"}
  Dsts = {"a", "*"}
  Reps = {"ce-entry", "ce-upsert", "legacy"}
  MaxN = 2
  MaxOps = 2
  Mode = "edit"
PROPERTIES EmitProp
CHECK_DEADLOCK FALSE
