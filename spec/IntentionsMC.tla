----------------------------- MODULE IntentionsMC -----------------------------
(* Bounded instance of Intentions: exhaustive check (Intentions_mc.cfg, VIEW     *)
(* hides the history) and history-mode generation (Intentions_gen.cfg, no VIEW:  *)
(* one behaviour per write HISTORY, hence every permutation of every set).        *)
EXTENDS Intentions, Json

CONSTANTS Names,    \* exact service names used as sources
          Peers,    \* source peers, NOPEER included
          Dsts,     \* destinations (names and/or WILD)
          Reps,     \* representations: "ce-entry", "ce-upsert", "legacy"
          MaxN,     \* bound on the number of intentions
          MaxOps,   \* bound on the number of writes
          Mode      \* "perm": only creations of new keys ; "edit": also updates and deletes

VARIABLES I,     \* the set of intentions
          J,     \* identity-addressed representations only: set of [id, ixn] with I = SetOf(J)
          rep, hist
vars == <<I, J, rep, hist>>

Acts == {"allow", "deny", "l7"}
Universe(r) == {i \in [src : Names \cup {WILD}, peer : Peers, dst : Dsts, act : Acts] : Representable(r, i)}

Init == I = {} /\ J = {} /\ rep \in Reps /\ hist = <<>>

DoUpsert ==
  /\ rep \notin IdReps
  /\ \E i \in Universe(rep) :
       /\ Mode = "perm" => \A j \in I : Key(j) # Key(i)
       /\ i \notin I
       /\ Cardinality(Upsert(I, i)) <= MaxN
       /\ I' = Upsert(I, i)
       /\ hist' = Append(hist, [op |-> "upsert", id |-> "", ixn |-> i])
  /\ UNCHANGED J
DoDelete ==
  /\ rep \notin IdReps /\ Mode = "edit"
  /\ \E i \in I : I' = Delete(I, i) /\ hist' = Append(hist, [op |-> "delete", id |-> "", ixn |-> i])
  /\ UNCHANGED J

\* identity-addressed writes: create under the first unused identity (also creations the store must refuse:
\* the key is taken), update ANY stored identity to ANY other content (source and/or destination may change
\* between exact and wildcard; through config entries only inside the same destination), remove by identity
IdSeq == <<"i1", "i2", "i3", "i4", "i5">>
FreeId == IdSeq[CHOOSE k \in DOMAIN IdSeq : IdSeq[k] \notin {j.id : j \in J} /\ \A m \in 1..(k - 1) : IdSeq[m] \in {j.id : j \in J}]
IdStep(o) == J' = IdApply(J, o) /\ I' = SetOf(IdApply(J, o)) /\ hist' = Append(hist, o)
DoCreate == rep \in IdReps /\ Cardinality(J) < MaxN
            /\ \E i \in Universe(rep) : IdStep([op |-> "create", id |-> FreeId, ixn |-> i])
DoUpdate == rep \in IdReps
            /\ \E j \in J, i \in Universe(rep) :
                 /\ i # j.ixn
                 /\ (rep = "ce-legacyid" => i.dst = j.ixn.dst)
                 /\ IdStep([op |-> "update", id |-> j.id, ixn |-> i])
DoRemove == rep \in IdReps /\ \E j \in J : IdStep([op |-> "remove", id |-> j.id, ixn |-> j.ixn])

Next == Len(hist) < MaxOps /\ (DoUpsert \/ DoDelete \/ DoCreate \/ DoUpdate \/ DoRemove) /\ UNCHANGED rep
Spec == Init /\ [][Next]_vars

View == <<I, rep>>
Emit == PrintT(<<"TRACE", ToJson([rep |-> rep', hist |-> hist'])>>)
EmitProp == [][Emit]_vars

\* ------------------------------------------------------------------ properties on the model
Fresh == "zz"
QNames  == Names \cup {Fresh}
Callers == [name : QNames, peer : Peers \cup {"otherpeer"}]
Dests   == (Dsts \ {WILD}) \cup QNames

InvKeys  == KeysUnique(I)
InvNoTie == NoAmbiguousTie(I, Callers, Dests)
InvFold  == IF rep \in IdReps THEN SetOf(IdFold({}, hist)) = I /\ I = SetOf(J) /\ Cardinality(J) = Cardinality(I)
            ELSE Fold({}, hist) = I

\* all sequences over S without repetition that are precedence-sorted
RECURSIVE PermsOf(_)
PermsOf(S) == IF S = {} THEN {<<>>} ELSE UNION {{<<x>> \o p : p \in PermsOf(S \ {x})} : x \in S}
SortedListsOf(S) == {q \in PermsOf(S) : PrecSorted(q)}

\* The code's algorithm (first match in ANY admissible precedence-sorted list) equals the property's
\* decision function, through both routes: list by source then test the destination (Intention.Check),
\* list by destination then test the source (proxy / topology).
InvFirstMatch ==
  /\ \A d \in Dests :
       LET L == SortedListsOf(ByDest(I, d)) IN
       \A s \in Callers :
         LET M == Matching(I, s, d) IN
         \A q \in L :
           LET k == FirstMatch(q, LAMBDA i : SrcMatches(i, s)) IN
           IF M = {} THEN k = 0 ELSE k # 0 /\ q[k] = Top(M)
  /\ \A n \in QNames :
       LET L == SortedListsOf(BySource(I, n)) IN
       \A d \in Dests :
         LET M == Matching(I, [name |-> n, peer |-> NOPEER], d) IN
         \A q \in L :
           LET k == FirstMatch(q, LAMBDA i : DstMatches(i, d)) IN
           IF M = {} THEN k = 0 ELSE k # 0 /\ q[k] = Top(M)

\* order independence on the model: every permutation of a history of creations folds to the same set
InvPermFold ==
  rep \notin IdReps /\ (\A k \in DOMAIN hist : hist[k].op = "upsert") /\ Cardinality({Key(hist[k].ixn) : k \in DOMAIN hist}) = Len(hist)
    => \A p \in PermsOf({hist[k] : k \in DOMAIN hist}) : Fold({}, p) = I

\* precedence really orders by destination first: an exact destination beats any wildcard destination
InvDstFirst == \A i, j \in I : (i.dst # WILD /\ j.dst = WILD) => Prec(i) > Prec(j)
=============================================================================
