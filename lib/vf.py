"""Common machinery for the /verif checks.

Pipeline of every check (see DESIGN.md section 2):

  1. tlc_mc      exhaustive TLC run of <Spec>_mc.cfg  -> the property holds on the model
  2. tlc_gen     TLC prints behaviours of the spec as JSON (history variable + PrintT)
  3. harness     a Go binary built from /repo's *current working tree* (tag verif) executes
                 generated and random command sequences against the real code and records one
                 NDJSON event per step: {cmd, res, pre?, post}
  4. tlc_validate  TLC evaluates the trace specification on the recorded events; every rejected
                 step is printed as  <<"REJECT", line, {failed predicate names}>>
  5. verdict     rejected steps -> signatures -> known findings / VIOLATION lines, evidence json

Exit codes: 0 held, 1 violation (real code step rejected by TLC), 2 infrastructure.
"""
import hashlib
import json
import os
import re
import shutil
import subprocess
import sys
import tempfile
import time

VERIF = os.path.dirname(os.path.dirname(os.path.abspath(__file__)))
REPO = os.environ.get("VERIF_REPO", "/repo")
BUILD = os.path.join(VERIF, ".build")
SPEC = os.path.join(VERIF, "spec")
HARNESS = os.path.join(VERIF, "harness")
TMPROOT = os.environ.get("VERIF_TMP", "/var/tmp")
TLA_CP = "/opt/veriftools/tla/tla2tools.jar:/opt/veriftools/tla/CommunityModules-deps.jar"
NCPU = os.cpu_count() or 4


class Infra(Exception):
    """Infrastructure problem: never a violation (exit 2)."""


def log(*a):
    print(*a, flush=True)


def seed():
    try:
        return int(os.environ.get("VERIF_SEED", "1"))
    except ValueError:
        return 1


# ----------------------------------------------------------------------------- Go build

def go_env():
    e = dict(os.environ)
    e["GOFLAGS"] = "-mod=mod"
    e["GOPROXY"] = "off"
    e.pop("GOTOOLCHAIN", None)
    e.pop("GOSUMDB", None)
    e.setdefault("GOCACHE", os.path.expanduser("~/.cache/go-build"))
    return e


def _gen_gomod():
    """harness go.mod is derived from REPO/go.mod so that versions, excludes and the
    nested-module replaces are exactly the repository's."""
    src = open(os.path.join(REPO, "go.mod")).read()
    src = re.sub(r"^module .*$", "module github.com/hashicorp/consul/verifharness", src, count=1, flags=re.M)
    src = re.sub(r"=> \./(\S+)", lambda m: "=> %s/%s" % (REPO, m.group(1)), src)
    src += "\nrequire github.com/hashicorp/consul v0.0.0\nreplace github.com/hashicorp/consul => %s\n" % REPO
    src += "\nrequire (\n\tpgregory.net/rapid v1.3.0\n\tgithub.com/anishathalye/porcupine v1.3.0\n)\n"
    return src


def build(name, race=False, tags="verif"):
    """Build harness/cmd/<name> against REPO's working tree. Returns binary path."""
    os.makedirs(BUILD, exist_ok=True)
    key = hashlib.sha1(REPO.encode()).hexdigest()[:8]
    modfile = os.path.join(BUILD, "go-%s.mod" % key)
    sumfile = os.path.join(BUILD, "go-%s.sum" % key)
    new = _gen_gomod()
    def _atomic(path, text):
        if os.path.exists(path) and open(path).read() == text:
            return
        tmp = "%s.%d.tmp" % (path, os.getpid())
        with open(tmp, "w") as f:
            f.write(text)
        os.replace(tmp, path)
    _atomic(modfile, new)
    extra = os.path.join(HARNESS, "extra.sum")
    sumtext = open(os.path.join(REPO, "go.sum")).read()
    if os.path.exists(extra):
        sumtext += open(extra).read()
    _atomic(sumfile, sumtext)
    out = os.path.join(BUILD, name + ("-race" if race else "") + ("" if REPO == "/repo" else "-" + key))
    cmd = ["go", "build", "-trimpath", "-modfile", modfile, "-tags", tags, "-o", out]
    if race:
        cmd.append("-race")
    cmd.append("./cmd/" + name)
    t0 = time.time()
    p = subprocess.run(cmd, cwd=HARNESS, env=go_env(), stdout=subprocess.PIPE, stderr=subprocess.STDOUT, text=True)
    if p.returncode != 0:
        raise Infra("go build %s failed:\n%s" % (name, p.stdout[-4000:]))
    log("[build] %s (%.0fs) repo=%s" % (name, time.time() - t0, REPO))
    return out


def run_harness(binary, args, timeout=3600, stdin=None, env=None):
    e = dict(os.environ)
    if env:
        e.update(env)
    p = subprocess.run([binary] + list(args), input=stdin, stdout=subprocess.PIPE, stderr=subprocess.PIPE,
                       text=True, timeout=timeout, env=e)
    return p


# ----------------------------------------------------------------------------- TLC

class TLCResult:
    def __init__(self):
        self.rc = None
        self.out = ""
        self.generated = 0
        self.distinct = 0
        self.depth = 0
        self.traces = []      # JSON-decoded behaviours printed by the generator
        self.rejects = []     # (line, [pred names]) printed by trace specs
        self.prints = []      # other <<"TAG", ...>> PrintT tuples, raw text
        self.violated = None  # name of violated invariant/property on the MODEL
        self.wall = 0.0
        self.coverage_zero = []


def new_scratch(prefix="verif-"):
    os.makedirs(TMPROOT, exist_ok=True)
    return tempfile.mkdtemp(prefix=prefix, dir=TMPROOT)


def _stage_specs(d):
    for f in os.listdir(SPEC):
        if f.endswith(".tla") or f.endswith(".cfg"):
            shutil.copy(os.path.join(SPEC, f), d)


_TRACE_RE = re.compile(r'^<<"TRACE", "(.*)">>$')
_REJ_RE = re.compile(r'<<\s*"REJECT",\s*(\d+),\s*(\{.*?\})\s*>>', re.S)


def tlc(module, cfg, *, workers=1, timeout=600, files=None, simulate=None, depth=None, sseed=None,
        coverage=False, deque=False, heap="6g", keep=False, quiet=False, extra_args=None):
    """Run TLC on spec/<module>.tla with spec/<cfg> in a scratch directory.
    files: {name: text or path-prefixed-with-@} extra files placed next to the spec (traces)."""
    d = new_scratch()
    res = TLCResult()
    try:
        _stage_specs(d)
        for name, content in (files or {}).items():
            dst = os.path.join(d, name)
            if isinstance(content, str) and content.startswith("@"):
                shutil.copy(content[1:], dst)
            else:
                with open(dst, "w") as f:
                    f.write(content)
        jopts = ["-XX:+UseParallelGC", "-Xmx" + heap, "-Xss512m"]
        if deque:
            jopts.append("-Dtlc2.tool.queue.IStateQueue=StateDeque")
        cmd = ["java"] + jopts + ["-cp", TLA_CP, "tlc2.TLC", "-metadir", os.path.join(d, "meta"),
                                  "-workers", str(workers), "-config", cfg, "-noGenerateSpecTE"]
        if simulate:
            cmd += ["-simulate", simulate]
        if depth:
            cmd += ["-depth", str(depth)]
        if sseed is not None:
            cmd += ["-seed", str(sseed)]
        if coverage:
            cmd += ["-coverage", "1"]
        if extra_args:
            cmd += extra_args
        cmd.append(module)
        t0 = time.time()
        try:
            p = subprocess.run(cmd, cwd=d, stdout=subprocess.PIPE, stderr=subprocess.STDOUT, text=True,
                               timeout=timeout)
        except subprocess.TimeoutExpired as ex:
            out = ex.stdout or ""
            if isinstance(out, bytes):
                out = out.decode("utf-8", "replace")
            if simulate:
                # simulation under an outer timeout is the documented way to bound it
                res.rc = 0
                res.out = out
                _parse_tlc(res)
                res.wall = time.time() - t0
                return res
            raise Infra("TLC timeout after %ss on %s/%s\n%s" % (timeout, module, cfg, out[-2000:]))
        res.wall = time.time() - t0
        res.rc = p.returncode
        res.out = p.stdout
        _parse_tlc(res)
        if not quiet:
            log("[tlc] %s %s rc=%d generated=%d distinct=%d traces=%d rejects=%d %.1fs" % (
                module, cfg, res.rc, res.generated, res.distinct, len(res.traces), len(res.rejects), res.wall))
        return res
    finally:
        if not keep:
            shutil.rmtree(d, ignore_errors=True)


def _parse_tlc(res):
    for m in _REJ_RE.finditer(res.out):
        res.rejects.append((int(m.group(1)), re.findall(r'"([^"]*)"', m.group(2))))
    for line in res.out.splitlines():
        m = _TRACE_RE.match(line)
        if m:
            try:
                s = json.loads('"' + m.group(1) + '"')
                res.traces.append(json.loads(s))
            except Exception as ex:  # noqa
                raise Infra("cannot decode generated trace: %r (%s)" % (line[:300], ex))
            continue
        if line.startswith('<<"'):
            res.prints.append(line)
            continue
        m = re.match(r"^(\d+) states generated, (\d+) distinct states found", line)
        if m:
            res.generated = int(m.group(1))
            res.distinct = int(m.group(2))
        m = re.match(r"^The depth of the complete state graph search is (\d+)", line)
        if m:
            res.depth = int(m.group(1))
        m = re.match(r"^Error: Invariant (\S+) is violated", line)
        if m:
            res.violated = m.group(1)
        m = re.match(r"^Error: Action property (\S+) is violated", line)
        if m:
            res.violated = m.group(1)
        m = re.match(r"^Error: Temporal properties were violated", line)
        if m:
            res.violated = "temporal"
        m = re.match(r"^Error: Deadlock reached", line)
        if m:
            res.violated = "deadlock"
        m = re.match(r"^\s*<(\w+) line \d+, col \d+ to line \d+, col \d+ of module (\w+)>: (\d+):(\d+)$", line)
        if m and m.group(3) == "0" and m.group(4) == "0":
            res.coverage_zero.append(m.group(1))


def tlc_mc(module, cfg, *, workers=None, timeout=900, coverage=False, heap="8g", files=None):
    """Exhaustive model check. The MODEL violating its property is an infrastructure error
    (the spec is wrong or documents a design-level finding that must be handled explicitly)."""
    r = tlc(module, cfg, workers=workers or min(8, NCPU), timeout=timeout, coverage=coverage, heap=heap, files=files)
    if r.rc != 0:
        raise Infra("model check %s/%s failed rc=%s violated=%s\n%s" % (module, cfg, r.rc, r.violated, r.out[-3000:]))
    if r.distinct == 0:
        raise Infra("model check %s/%s explored nothing\n%s" % (module, cfg, r.out[-2000:]))
    return r


def tlc_gen(module, cfg, *, timeout=900, simulate=None, depth=None, sseed=None, heap="6g", files=None, workers=1):
    r = tlc(module, cfg, workers=workers, timeout=timeout, simulate=simulate, depth=depth, sseed=sseed, heap=heap, files=files)
    if r.rc != 0 and not simulate:
        raise Infra("generation %s/%s failed rc=%s\n%s" % (module, cfg, r.rc, r.out[-3000:]))
    if not r.traces:
        raise Infra("generation %s/%s printed no behaviours\n%s" % (module, cfg, r.out[-2000:]))
    return r


def tlc_validate(module, cfg, trace_path, *, timeout=1800, heap="8g", files=None, nevents=None):
    """Trace validation: the trace spec reads trace.ndjson; returns TLCResult with .rejects.
    The run must consume the whole trace (postcondition in the cfg), otherwise Infra."""
    fs = {"trace.ndjson": "@" + trace_path}
    fs.update(files or {})
    r = tlc(module, cfg, workers=1, timeout=timeout, heap=heap, files=fs)
    if r.rc != 0:
        raise Infra("trace validation %s/%s failed rc=%s (not a verdict)\n%s" % (module, cfg, r.rc, r.out[-4000:]))
    if nevents is not None and r.distinct != nevents + 1:
        raise Infra("trace validation consumed %d of %d events" % (r.distinct - 1, nevents))
    return r


# ----------------------------------------------------------------------------- traces / events

def write_ndjson(path, rows):
    with open(path, "w") as f:
        for r in rows:
            f.write(json.dumps(r, separators=(",", ":"), sort_keys=True))
            f.write("\n")


def read_ndjson(path):
    rows = []
    with open(path) as f:
        for line in f:
            line = line.strip()
            if line:
                rows.append(json.loads(line))
    return rows


def dedup_behaviours(traces):
    """Edge-mode generation prints one history per transition; drop histories that are proper
    prefixes of another (they are replayed as part of the longer one)."""
    keyed = {}
    for t in traces:
        keyed[json.dumps(t, sort_keys=True)] = t
    keys = sorted(keyed)
    out = []
    for i, k in enumerate(keys):
        # k is '[a,b]' ; a prefix history serialises to a string prefix (minus the closing bracket)
        # extensions "[a, b, c]" sort immediately BEFORE "[a, b]" (',' < ']')
        stem = k[:-1]
        if i > 0 and keys[i - 1].startswith(stem + ","):
            continue
        out.append(keyed[k])
    return out


# ----------------------------------------------------------------------------- findings

def load_findings():
    p = os.path.join(VERIF, "known_findings.jsonl")
    out = []
    if os.path.exists(p):
        for line in open(p):
            line = line.strip()
            if line and not line.startswith("#"):
                out.append(json.loads(line))
    return out


class Verdict:
    """Collects rejected implementation steps for one property."""

    def __init__(self, pid):
        self.pid = pid
        self.viol = []   # dict(sig, what, replay)
        self.known_hit = {}

    def add(self, sig, what, replay_obj):
        self.viol.append({"sig": sig, "what": what, "replay": replay_obj})

    def probe_known(self):
        """A known finding that the sweep did not happen to hit is re-demonstrated by its own replay file
        (`"replay": "findings/<file>.json"` in known_findings.jsonl): `bin/check <id> --replay <file>` in a
        subprocess; if it still reproduces it is counted as hit (and printed as KNOWN-FINDING by finish)."""
        known = [f for f in load_findings() if f.get("property") == self.pid and f.get("status") == "known" and f.get("replay")]
        hit = {v["sig"] for v in self.viol}
        for f in known:
            if f["sig"] in hit:
                continue
            path = os.path.join(VERIF, f["replay"])
            if not os.path.exists(path):
                continue
            env = dict(os.environ)
            env["VERIF_EVIDENCE_DIR"] = new_scratch("verif-probe-ev-")
            try:
                p = subprocess.run([os.path.join(VERIF, "bin", "check"), self.pid, "--replay", path], stdout=subprocess.PIPE,
                                   stderr=subprocess.STDOUT, text=True, timeout=1800, env=env)
                if p.returncode == 1:
                    self.add(f["sig"], "reproduced by its replay " + f["replay"], {"kind": "probe", "replay": f["replay"]})
            except subprocess.TimeoutExpired:
                pass
            finally:
                shutil.rmtree(env["VERIF_EVIDENCE_DIR"], ignore_errors=True)

    def finish(self):
        """Prints KNOWN-FINDING / VIOLATION lines; returns number of unlisted violations."""
        if os.environ.get("VERIF_NO_PROBE") != "1":
            self.probe_known()
        known = [f for f in load_findings() if f.get("property") == self.pid and f.get("status") == "known"]
        n_new = 0
        seen_new = set()
        for v in self.viol:
            k = next((f for f in known if f["sig"] == v["sig"]), None)
            if k is not None:
                if k["sig"] not in self.known_hit:
                    self.known_hit[k["sig"]] = 0
                    log("KNOWN-FINDING: property=%s %s" % (self.pid, k["what"]))
                self.known_hit[k["sig"]] += 1
                continue
            n_new += 1
            if v["sig"] in seen_new and len(seen_new) >= 1:
                continue
            seen_new.add(v["sig"])
            os.makedirs(os.path.join(VERIF, "replays"), exist_ok=True)
            h = hashlib.sha1(json.dumps(v["replay"], sort_keys=True).encode()).hexdigest()[:10]
            path = os.path.join(VERIF, "replays", "%s-%s.json" % (self.pid, h))
            with open(path, "w") as f:
                json.dump({"property": self.pid, "sig": v["sig"], "what": v["what"], "replay": v["replay"]}, f, indent=1)
            log("VIOLATION property=%s replay=%s" % (self.pid, path))
            log("  sig=%s %s" % (v["sig"], v["what"]))
        return n_new


# ----------------------------------------------------------------------------- evidence

def write_evidence(pid, tier, level, coverage, assumptions, wall_s, violations):
    evdir = os.environ.get("VERIF_EVIDENCE_DIR", os.path.join(VERIF, "evidence"))  # scratch dir when testing seeded changes
    os.makedirs(evdir, exist_ok=True)
    ev = {
        "property_id": pid,
        "tier": tier,
        "seed": seed(),
        "level": level,
        "coverage": coverage,
        "assumptions": assumptions,
        "wall_s": round(wall_s, 2),
        "violations": violations,
    }
    path = os.path.join(evdir, pid + ".json")
    tmp = path + ".tmp"
    with open(tmp, "w") as f:
        json.dump(ev, f, indent=1, sort_keys=True)
    os.replace(tmp, path)
    return path


def spec_hash(*modules):
    h = hashlib.sha1()
    for m in modules:
        for ext in (".tla",):
            p = os.path.join(SPEC, m + ext)
            if os.path.exists(p):
                h.update(open(p, "rb").read())
    return h.hexdigest()[:12]
