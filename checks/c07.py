"""C07 - catalog integrity: no orphans, complete cascades, derived views agree (spec/Catalog.tla, Store.tla cascades)."""
import json
import os
import shutil
import time

import vf

PID = "C07"
ANY_COMMAND = {"AdvertisedVipStaleGatewayLink", "AdvertisedVipCurrentProxyImported"}
DOC = {
    "NoOrphanService/NoOrphanCheck/NoOrphanCoordinate": "no instance or check without its node, no service check without its instance, no coordinate without node",
    "CascadeComplete": "a node (service) that disappears in a step leaves none of its services, checks, coordinates (checks) behind",
    "KindNamesComplete/KindNamesSound/ConnectEnabledComplete": "kind-service-names equals the (kind, name) pairs of the local registrations plus the connect-enabled names, recomputed in TLA+",
    "GatewayRowsJustified/GatewayExactLinksPresent/WildcardRowsLive": "gateway-services rows are exactly those the gateway config entries justify: exact links always present, "
                                                                       "wildcard rows only for names that exist",
    "TopologyRefsLive": "every mesh-topology reference names a registered instance",
    "TopologyRefsComplete/TopologyRefsJustified": "the mesh-topology rows of sidecar proxies are exact: every declared upstream of a local proxy instance is referenced by the row (upstream, its destination), and a reference to an existing instance is to a proxy of that destination declaring that upstream",
    "UsageAgrees": "usage counters (nodes, service instances, service names, kv entries) equal the recount",
    "VipInjective/VipPoolDisjoint": "no two services share a virtual IP; an assigned IP is not in the free pool",
    "AdvertisedVipStaleGatewayLink": "the same for a per-service address of a terminating gateway whose config entry no longer links that service",
    "AdvertisedVipCurrent": "every virtual IP advertised by a catalog instance (its own consul-virtual address, a terminating gateway's consul-virtual:<service> addresses) "
                            "is the current assignment of that service in service-virtual-ips",
}


def run(tier):
    t0 = time.time()
    seed = vf.seed()
    binary = vf.build("h-fsm")
    work = vf.new_scratch("verif-C07-")
    verdict = vf.Verdict(PID)
    try:
        depth = 3 if tier == "quick" else 4
        cfg = open(os.path.join(vf.SPEC, "StoreMC_sess.cfg")).read().replace("MaxDepth = 3", "MaxDepth = %d" % depth)
        m = vf.tlc_mc("StoreMC", "mc.cfg", files={"mc.cfg": cfg}, timeout=2400, heap="16g", workers=min(12, vf.NCPU))
        params = [dict(n=40, len=150, mix="catalog")] if tier == "quick" else [dict(n=300, len=200, mix="catalog"), dict(n=60, len=200, mix="all")]
        n_hist = n_events = 0
        hits = {}
        samples = []
        nontrivial = set()
        for ri, p in enumerate(params):
            logs = os.path.join(work, "logs%d" % ri)
            os.makedirs(logs)
            tp = os.path.join(work, "t%d.ndjson" % ri)
            pr = vf.run_harness(binary, ["c07", "-seed", str(seed + 17 * ri), "-n", str(p["n"]), "-len", str(p["len"]), "-mix", p["mix"], "-out", tp, "-logs", logs], timeout=7200)
            if pr.returncode != 0:
                raise vf.Infra("h-fsm c07 failed: %s" % pr.stderr[-2000:])
            meta = json.loads(pr.stdout)
            r = vf.tlc_validate("CatalogTrace", "CatalogTrace.cfg", tp, nevents=meta["events"], timeout=3000, heap="12g")
            rows = vf.read_ndjson(tp)
            n_hist += meta["histories"]
            n_events += meta["events"]
            for e in rows:
                po = e["post"]
                nontrivial.add((len(po["svcs"]) > 0, len(po["gws"]) > 0, len(po["topo"]) > 0, len(po["vips"]) > 0, len(po["kinds"]), len(po["tgw"]) + len(po["igw"]) > 0, e["desc"].split(" ")[0]))
            if rows and len(samples) < 2:
                e = max(rows[:200], key=lambda x: len(x["post"]["svcs"]) + len(x["post"]["gws"]))
                samples.append({"desc": e["desc"], "post": e["post"]})
            for line, names in r.rejects:
                e = rows[line - 1]
                log = json.load(open(os.path.join(logs, "log-%d.json" % e["h"])))
                for nm in names:
                    hits[nm] = hits.get(nm, 0) + 1
                    sig = "%s:%s:%s" % (PID, nm, e["desc"].split(" ")[0])
                    if nm == "GatewayExactLinksPresent":
                        # the situation of the recorded finding, named in the signature: every missing exact link belongs to a gateway
                        # entry that lists "*" as well (the row had been stored as wildcard-derived and went with a wildcard cleanup)
                        po = e["post"]
                        rows_ = {(g["gw"], g["svc"]) for g in po["gws"]}
                        missing = [(en["gw"], n, "*" in en["svcs"]) for en in po["tgw"] + po["igw"] for n in en["svcs"] if n != "*" and (en["gw"], n) not in rows_]
                        if missing and all(w for _, _, w in missing):
                            sig = "%s:%s[wildcard+exact]" % (PID, nm)
                    if nm in ANY_COMMAND:
                        # the predicate itself names the situation; the command that finally exposes it is incidental
                        sig = "%s:%s" % (PID, nm)
                    verdict.add(sig, "%s broken by '%s' (history %d entry %d)" % (nm, e["desc"], e["h"], e["i"]),
                                {"kind": "fsm-log", "mode": "c07", "log": log[:e["i"]], "predicate": nm})
        n_new = verdict.finish()
        cov = {"states": m.distinct, "transitions": m.generated, "traces_validated_against_impl": n_hist, "samples": samples,
               "evaluations": n_events, "distinct_nontrivial": len(nontrivial),
               "rule": "after every command of seeded catalog-heavy logs (register/deregister of nodes, typical / connect-proxy / connect-native / gateway "
                       "services, checks, rename by ID, gateway / service-defaults / resolver config entries, transactions, local and peer-imported) the "
                       "projected base AND derived tables are one event; TLC recomputes every derived view from the base tables (spec/Catalog.tla) and "
                       "charges a broken invariant to the step that broke it; distinct_nontrivial = distinct (shape of state, command family) combinations",
               "predicate_doc": DOC, "rejected_by_predicate": hits, "known_findings_matched": verdict.known_hit, "exhaustive": False,
               "model_check": "StoreMC profile sess depth %d: NoOrphans + session/lock cascades over all interleavings of base-table commands" % depth}
        vf.write_evidence(PID, tier, "model_checking", cov,
                          ["projection copies fields only (harness/internal/storeh/catalog.go)", "wildcard completeness of gateway-services is not recomputed (only justified-ness / liveness of rows); mesh-topology rows are recomputed "
                           "exactly for sidecar proxies, rows of ingress gateways only for liveness"],
                          time.time() - t0, n_new)
        return 1 if n_new else 0
    finally:
        shutil.rmtree(work, ignore_errors=True)


def replay(path):
    rp = json.load(open(path))["replay"]
    binary = vf.build("h-fsm")
    work = vf.new_scratch("verif-replay-")
    try:
        lp = os.path.join(work, "log.json")
        json.dump(rp["log"], open(lp, "w"))
        tp = os.path.join(work, "t.ndjson")
        pr = vf.run_harness(binary, ["c07", "-log", lp, "-out", tp], timeout=3600)
        if pr.returncode != 0:
            raise vf.Infra(pr.stderr[-2000:])
        meta = json.loads(pr.stdout)
        r = vf.tlc_validate("CatalogTrace", "CatalogTrace.cfg", tp, nevents=meta["events"])
        rows = vf.read_ndjson(tp)
        bad = [(l, ns) for l, ns in r.rejects if rp["predicate"] in ns]
        for l, ns in bad:
            print("rejected: entry %d (%s): %s" % (l, rows[l - 1]["desc"], ns))
        if bad:
            print("VIOLATION property=%s replay=%s" % (PID, path))
            return 1
        print("replay accepted")
        return 0
    finally:
        shutil.rmtree(work, ignore_errors=True)
