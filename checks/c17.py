"""C17 - peering: imports mirror exactly what was exported and touch nothing else; the exporter
offers a service to a peer only if an exported-services entry names that peer as a consumer.

spec/Peering.tla (+ PeeringMC, PeeringTrace), harness/cmd/h-peer.

Pipeline: TLC checks the declarative property on the constructive specification for all bounded
inputs (profiles upd / list / exp / e2e); TLC prints one behaviour per transition of those models; h-peer
replays them - and seeded random histories over a larger universe - through the REAL
peerstream handlers (processResponse -> handleUpsert -> handleUpdateService /
handleUpsertExportedServiceList) on a real peerstream.Server whose backend applies catalog writes
through the real fsm.FSM to a real state.Store, and through the real
state.Store.ExportedServicesForPeer; TLC (PeeringTrace) judges every recorded step.

Profile e2e joins a real exporting cluster (store + event publisher + peerstream.Server with its
subscription manager) and a real importing cluster by an in-memory stream, both ends running the
real HandleStream. Commands replace the exporter's exported-services entry in one write (add,
remove, swap, arbitrary replacement, wildcard) and change its local catalog; after every command
the harness waits until the replication settled and TLC judges whether the importer holds exactly
what is exported now. The transitions TLC generates for this profile are chained into long walks
(every command carries the abstract state it leads to), because every step costs a settle.
"""
import json
import os
import shutil
import threading
import time

import vf

PID = "C17"

PRED_DOC = {
    "input": "the snapshot sent is one an exporter can produce (one entry per node, ids / check ids unique per node)",
    "res": "the handler / query reported success",
    "MirrorInstances": "service rows of (peer, svc) after the update = instances of the snapshot (absent ones removed)",
    "MirrorNodes": "every snapshot node exists under the peer with the snapshot's address",
    "MirrorSvcChecks": "service-level checks of every snapshot instance = the snapshot's",
    "MirrorNodeChecks": "every node-level check of the snapshot exists with its status",
    "StaleNodeCheckCarried": "no node-level check absent from the snapshot survives on a snapshot node where a stored instance of svc is also in the snapshot",
    "StaleNodeCheckNoCarrier": "no node-level check absent from the snapshot survives on a snapshot node where no stored instance of svc is in the snapshot (instance replaced / node newly used)",
    "QueryAgrees": "Store.CheckServiceNodes(svc, peer) / Store.ServiceList(peer) return exactly what the table rows say",
    "NoOrphanChecks": "no service check of the peer without its instance",
    "NodesExist": "no service or check row of the peer without its node",
    "UnusedNodesGone": "a node that svc left and that carries no other service of the peer is removed with its checks",
    "NIOtherPeers": "every row (complete row incl. raft indexes) of every other peer is unchanged",
    "NILocal": "every catalog row of the local cluster is unchanged",
    "NIRest": "every non-catalog row (sessions, kv, config entries, peerings, virtual IPs of others, ...) is unchanged, except the virtual-IP rows of the updated peer",
    "NIRestGateway": "the local cluster's gateway-services / mesh-topology rows are unchanged",
    "NISamePeer": "rows of the same peer that belong neither to svc nor to a node of the snapshot / a node svc left are unchanged",
    "SharedNodeKept": "a node svc left but that still carries another service keeps its row and node checks",
    "conf": "the catalog after the step equals Peering!Apply(pre_impl, cmd)",
    "ListPrunes": "after an exported list only listed services (and their sidecar-proxy twins) remain for the peer",
    "ListKeeps": "listed services keep their instances and checks, rows not rewritten",
    "ListNoEmptyNodes": "nodes that lost their last service through the list are removed",
    "ExportOnlyIfConsumer": "every name offered to the peer (services and discovery chains) has an exported-services entry (exact or wildcard) naming the peer",
    "ExportNoConsul": "the consul service is never offered",
    "ExportExact": "ExportedServicesForPeer.Services = Peering!Exported(cfg, local services, peer)",
    "ExportChainsAreServices": "without a wildcard entry for the peer, offered discovery chains are a subset of offered services",
    "xconf": "end to end: the exporter's own local catalog and its stored exported-services entry are what the commands said",
    "E2EOnlyExported": "end to end, after the stream settled: the importer holds no service of the peer that the exporter's entry does not export to it NOW",
    "E2EMirror": "end to end: for every exported service the imported instances (node, address, version, flattened health) equal the exporter's",
    "E2ENodes": "end to end: the imported nodes are exactly the exporter's nodes that carry an instance of an exported service, with their address",
    "E2EChecks": "end to end: imported checks are per-instance only, none without its instance",
}

ASSUMPTIONS = [
    "TLC evaluates spec/PeeringTrace.tla correctly",
    "projection in harness/internal/peerh copies fields only (x = hash of the complete row)",
    "snapshots are well-formed (what an exporter's CheckServiceNodes can return): one address and one set of node checks per node, "
    "service ids and check ids unique per node; instance ids and check ids are not re-used across service names of one peer",
    "node names / ids do not change (no node renames), names are lower case, single partition and namespace (CE)",
    "the sidecar-proxy twin of a name is name + '-sidecar-proxy' (the trace carries the map; TLC cannot concatenate strings)",
    "catalog writes reach the store through fsm.FSM.Apply exactly as PeeringBackend.CatalogRegister/Deregister submit them (no raft failures)",
    "raft index table, usage counters and the virtual-IP free list are not data of any cluster and are not compared",
    "end to end: both servers run with Connect disabled (no trust bundles, mesh gateways, discovery chains on the stream); a step is "
    "observed after the replication settled (all sent responses acknowledged, nothing moved for a quiet window scaled by the measured "
    "replication latency, importer equal to the exporter's exports or a long patience window elapsed); commands are issued one at a time",
]

# (R1, R2, R3) = richness of the update alphabet per depth, see PeeringMC.tla
TIERS = {
    "quick": {
        "mc": [("upd", 2, (1, 0, 0)), ("list", 3, (0, 0, 0)), ("exp", 1, (0, 0, 0)), ("e2e", 3, (0, 0, 0))],
        "gen": [("upd", 2, (0, 0, 0), 1), ("upd", 2, (1, 1, 0), 5), ("list", 2, (0, 0, 0), 1), ("exp", 1, (0, 0, 0), 8)],
        "random": [("import", 25, 25), ("export", 300, 1)],
        # end to end: (profile, depth, richness, walk length, number of walks replayed or None = all), random (walks, length)
        "e2e_gen": [(3, (0, 0, 0), 40, 12)],
        "e2e_random": (6, 24),
    },
    "thorough": {
        "mc": [("upd", 2, (1, 1, 0)), ("upd", 2, (0, 2, 0)), ("upd", 3, (0, 0, 0)), ("list", 4, (0, 0, 0)), ("exp", 1, (0, 0, 0)),
               ("e2e", 4, (0, 0, 0)), ("e2e", 3, (1, 1, 1))],
        "gen": [("upd", 2, (1, 1, 0), 1), ("list", 3, (0, 0, 0), 1), ("exp", 1, (0, 0, 0), 1)],
        "random": [("import", 250, 40), ("export", 3000, 1)],
        "e2e_gen": [(4, (0, 0, 0), 60, None), (2, (1, 1, 1), 60, None)],
        "e2e_random": (32, 30),
    },
}
E2E_PROCS = 4   # end-to-end walks are mostly waiting: several harness processes side by side
CHUNK = 6000   # events per TLC validation run


def _cfg(kind, profile, depth, rich):
    s = open(os.path.join(vf.SPEC, "Peering_%s.cfg" % kind)).read()
    out = []
    for line in s.splitlines():
        t = line.strip()
        if t.startswith("Profile ="):
            line = '  Profile = "%s"' % profile
        elif t.startswith("MaxDepth ="):
            line = "  MaxDepth = %d" % depth
        elif t.startswith("R1 ="):
            line = "  R1 = %d" % rich[0]
        elif t.startswith("R2 ="):
            line = "  R2 = %d" % rich[1]
        elif t.startswith("R3 ="):
            line = "  R3 = %d" % rich[2]
        out.append(line)
    return "\n".join(out) + "\n"


def cmd_kind(c):
    if c["t"] == "upd" and c.get("nil"):
        return "upd-nil"
    return c["t"]


def history_of(rows, line, behs=None):
    """commands of the behaviour that contains 1-based trace line `line`, up to that line. Events carry
    (b, k) = behaviour and step number; replayed behaviours record a shared prefix only once, so the
    commands come from the replay input when there is one."""
    e = rows[line - 1]
    if behs is not None:
        return behs[e["b"]][:e["k"] + 1]
    return [r["cmd"] for r in rows if r["b"] == e["b"] and r["k"] <= e["k"]]


def _parallel(jobs, width=2):
    """run callables, at most `width` at once; re-raise the first exception"""
    res = [None] * len(jobs)
    err = []
    sem = threading.Semaphore(width)

    def work(i, fn):
        with sem:
            try:
                res[i] = fn()
            except BaseException as ex:  # noqa
                err.append(ex)
    ts = [threading.Thread(target=work, args=(i, fn)) for i, fn in enumerate(jobs)]
    for t in ts:
        t.start()
    for t in ts:
        t.join()
    if err:
        raise err[0]
    return res


def _features(pre, e):
    """names of the non-trivial situations an implementation step exercises (vacuity accounting;
    computed from the recorded states only)"""
    c = e["cmd"]
    post = e["post"]
    f = set()
    if c["t"] == "export":
        names = {x["name"] for x in c["cfg"]}
        if "*" in names:
            f.add("exp-wildcard")
        if any(x["name"] == "*" and c["peer"] in x["peers"] for x in c["cfg"]):
            f.add("exp-wildcard-for-peer")
        if any(c["peer"] not in x["peers"] for x in c["cfg"]):
            f.add("exp-entry-for-other-peer-only")
        if any(len(x["peers"]) > 1 for x in c["cfg"]):
            f.add("exp-several-consumers")
        if "consul" in names or any(l["name"] == "consul" for l in c["lsvcs"]):
            f.add("exp-consul-present")
        if e["res"].get("services"):
            f.add("exp-nonempty")
        else:
            f.add("exp-empty")
        if e["res"].get("chains"):
            f.add("exp-chains")
        return f
    if c["t"] == "seed" or pre is None:
        return f
    p = c["peer"]
    pre_s = {(r["node"], r["id"]): r for r in pre["svcs"] if r["peer"] == p}
    post_s = {(r["node"], r["id"]): r for r in post["svcs"] if r["peer"] == p}
    foreign = {(r["node"], r["id"]) for r in pre["svcs"] if r["peer"] != p}
    if c["t"] == "upd":
        svc = c["svc"]
        stored = {k for k, r in pre_s.items() if r["name"] == svc}
        snapk = {(en["node"], i["id"]) for en in c["snap"] for i in en["insts"]}
        snapn = {en["node"] for en in c["snap"]}
        if stored - snapk:
            f.add("instance-removed")
        if snapk - stored:
            f.add("instance-added")
        if stored & snapk:
            f.add("instance-kept")
        if {i for _, i in stored - snapk} & {i for _, i in snapk - stored}:
            f.add("instance-moved-node")
        if snapk & foreign:
            f.add("same-key-under-other-peer-or-local")
        left = {n for n, _ in stored} - snapn
        post_nodes = {r["node"] for r in post["nodes"] if r["peer"] == p}
        if left - post_nodes:
            f.add("unused-node-removed")
        if left & post_nodes:
            f.add("shared-node-kept")
        if any(r["name"] != svc and r["node"] in snapn for r in pre_s.values()):
            f.add("snapshot-node-shared-with-other-service")
        pre_nc = {(r["node"], r["cid"]): r["st"] for r in pre["chks"] if r["peer"] == p and r["sid"] == ""}
        snap_nc = {(en["node"], k["cid"]): k["st"] for en in c["snap"] for k in en["nchk"]}
        if any(k in pre_nc and k not in snap_nc for k in pre_nc if k[0] in snapn):
            f.add("node-check-dropped")
        if any(k in pre_nc and pre_nc[k] != v for k, v in snap_nc.items()):
            f.add("node-check-status-changed")
        pre_sc = {(r["node"], r["cid"]): r["st"] for r in pre["chks"] if r["peer"] == p and r["sid"] != ""}
        snap_sc = {(en["node"], k["cid"]): k["st"] for en in c["snap"] for i in en["insts"] for k in i["schk"]}
        if any(k in pre_sc and pre_sc[k] != v for k, v in snap_sc.items()):
            f.add("service-check-status-changed")
        if any((n, i) in (stored & snapk) for (n, i) in stored) and any(
                k not in snap_sc for k in pre_sc if any(r["sid"] and (r["node"], r["cid"]) == k and (r["node"], r["sid"]) in (stored & snapk)
                                                        for r in pre["chks"] if r["peer"] == p)):
            f.add("service-check-dropped")
        if not c["snap"]:
            f.add("empty-snapshot")
        if any(en["node"] in {r["node"] for r in pre["nodes"] if r["peer"] == p} and
               en["addr"] != next(r["addr"] for r in pre["nodes"] if r["peer"] == p and r["node"] == en["node"]) for en in c["snap"]):
            f.add("node-address-changed")
    elif c["t"] == "list":
        keep = set(c["names"]) | {c["twin"][n] for n in c["names"] if n in c["twin"]}
        names_pre = {r["name"] for r in pre_s.values()}
        if names_pre - keep:
            f.add("list-prunes-service")
        if names_pre & keep:
            f.add("list-keeps-service")
        if names_pre & (keep - set(c["names"])):
            f.add("list-keeps-sidecar-twin")
        if {r["node"] for r in pre["nodes"] if r["peer"] == p} - {r["node"] for r in post["nodes"] if r["peer"] == p}:
            f.add("list-removes-node")
    if any(r["peer"] == "" for r in pre["nodes"]):
        f.add("local-data-present")
    if any(r["peer"] not in ("", p) for r in pre["nodes"]):
        f.add("other-peer-data-present")
    return f


def _strip(c):
    return {k: v for k, v in c.items() if k != "key"}


def _tour(traces, walk_len, rot=0):
    """TLC printed one history per transition of the e2e model; every command carries `key`, the abstract
    state it leads to. Chain the transitions into walks from the initial state that together take every
    transition at least once (greedy: take an untaken transition of the current state, else walk to the
    nearest state that has one)."""
    seedcmd = traces[0][0]
    edges = {}   # (src, cmd json) -> (cmd, dst)
    for t in traces:
        if len(t) < 2:
            continue
        src = json.dumps(t[-2]["key"], sort_keys=True) if len(t) > 2 else "INIT"
        cmd = t[-1]
        edges.setdefault((src, json.dumps(_strip(cmd), sort_keys=True)), (cmd, json.dumps(cmd["key"], sort_keys=True)))
    out = {}
    for (src, cj), (cmd, dst) in sorted(edges.items()):
        out.setdefault(src, []).append((cj, cmd, dst))
    for src in out:
        k = rot % len(out[src])
        out[src] = out[src][k:] + out[src][:k]
    todo = set(edges)
    walks, cur, walk = [], "INIT", [seedcmd]

    def path_to_work(start):
        prev, queue, seen = {}, [start], {start}
        while queue:
            n = queue.pop(0)
            if n != start and any((n, cj) in todo for cj, _, _ in out.get(n, [])):
                p = []
                while n != start:
                    n, step = prev[n]
                    p.append(step)
                return list(reversed(p))
            for cj, cmd, dst in out.get(n, []):
                if dst not in seen:
                    seen.add(dst)
                    prev[dst] = (n, (cj, cmd, dst))
                    queue.append(dst)
        return None
    while todo:
        step = next(((cj, cmd, dst) for cj, cmd, dst in out.get(cur, []) if (cur, cj) in todo), None)
        steps = [step] if step else path_to_work(cur)
        if steps is None or len(walk) >= walk_len:
            if len(walk) > 1:
                walks.append(walk)
            elif steps is None:
                break      # nothing reachable any more
            cur, walk = "INIT", [seedcmd]
            continue
        for cj, cmd, dst in steps:
            todo.discard((cur, cj))
            walk.append(_strip(cmd))
            cur = dst
    if len(walk) > 1:
        walks.append(walk)
    return walks, len(edges), len(edges) - len(todo)


def _exported(cfg, xcat, consumer):
    """vacuity accounting only (the judge is Peering!ExpSet)"""
    names = {e["name"] for e in cfg if consumer in e["peers"] and e["name"] != "*"}
    if any(e["name"] == "*" and consumer in e["peers"] for e in cfg):
        names |= {r["name"] for r in xcat["svcs"] if r["peer"] == ""}
    return names - {"consul"}


def _features_e2e(prev, e, ctx):
    c = e["cmd"]
    f = set()
    k = c.get("consumer", "c1")
    now = _exported(e["xcfg"], e["xcat"], k)
    before = _exported(prev["xcfg"], prev["xcat"], k) if prev is not None and "xcat" in prev else set()
    if c["t"] == "xcfg":
        removed, added = before - now, now - before
        ctx["removed"], ctx["swap"] = removed, bool(removed) and len(now) >= len(before)
        if removed:
            f.add("e2e-unexport")
        if added:
            f.add("e2e-export-added")
        if removed and added:
            f.add("e2e-swap")
        if ctx["swap"]:
            f.add("e2e-swap-list-not-shorter")
        if before and not now:
            f.add("e2e-unexport-all")
        if any(x["name"] == "*" and k in x["peers"] for x in c["cfg"]):
            f.add("e2e-wildcard-for-consumer")
        if any(k not in x["peers"] for x in c["cfg"]):
            f.add("e2e-entry-for-other-consumer-only")
    elif c["t"] in ("xreg", "xdereg"):
        svc = c["name"]
        if svc in now:
            f.add("e2e-change-of-exported-service")
        else:
            f.add("e2e-change-of-unexported-service")
            if svc in ctx.get("removed", set()):
                f.add("e2e-change-of-service-just-unexported")
                if ctx.get("swap"):
                    f.add("e2e-change-of-service-swapped-out")
        if c["t"] == "xdereg":
            f.add("e2e-deregister")
    if any(r["peer"] == c.get("peer", "p1") for r in e["post"]["svcs"]):
        f.add("e2e-importer-holds-imports")
    if not e["settle"].get("mirrored"):
        f.add("e2e-settle-gave-up")
    return f


REQUIRED_FEATURES = {
    "e2e-unexport", "e2e-export-added", "e2e-swap", "e2e-swap-list-not-shorter", "e2e-unexport-all", "e2e-entry-for-other-consumer-only",
    "e2e-change-of-exported-service", "e2e-change-of-unexported-service", "e2e-change-of-service-swapped-out", "e2e-deregister",
    "e2e-importer-holds-imports",
    "instance-removed", "instance-added", "instance-kept", "instance-moved-node", "same-key-under-other-peer-or-local",
    "unused-node-removed", "shared-node-kept", "snapshot-node-shared-with-other-service", "node-check-dropped",
    "service-check-status-changed", "empty-snapshot", "list-prunes-service", "list-keeps-service", "list-keeps-sidecar-twin",
    "local-data-present", "other-peer-data-present", "exp-wildcard-for-peer", "exp-entry-for-other-peer-only", "exp-several-consumers",
    "exp-consul-present", "exp-nonempty", "exp-empty",
}


def _validate_file(tp, nevents, work):
    """validate a trace file in chunks of CHUNK events; a chunk starts at an event that carries `pre`.
    Returns (rejects with global 1-based line numbers)."""
    rows = vf.read_ndjson(tp)
    if len(rows) != nevents:
        raise vf.Infra("trace %s has %d events, harness reported %d" % (tp, len(rows), nevents))
    cuts = [0]
    for i, r in enumerate(rows):
        if i - cuts[-1] >= CHUNK and "pre" in r:
            cuts.append(i)
    cuts.append(len(rows))
    jobs = []
    for a, b in zip(cuts, cuts[1:]):
        if a == b:
            continue
        cp = "%s.%d" % (tp, a)
        vf.write_ndjson(cp, rows[a:b])

        def job(cp=cp, a=a, b=b):
            r = vf.tlc_validate("PeeringTrace", "PeeringTrace.cfg", cp, nevents=b - a, timeout=3000, heap="8g")
            os.remove(cp)
            return [(a + line, names) for line, names in r.rejects]
        jobs.append(job)
    rej = []
    for part in _parallel(jobs, 2):
        rej.extend(part)
    return rows, rej


def run(tier):
    t0 = time.time()
    seed = vf.seed()
    conf = TIERS[tier]
    binary = vf.build("h-peer")
    work = vf.new_scratch("verif-%s-" % PID)
    verdict = vf.Verdict(PID)
    cov = {"mc": [], "gen": [], "random": []}
    try:
        # 1. the declarative property holds on the constructive specification (bounded, exhaustive)
        def mc_job(prof, depth, rich):
            def fn():
                return vf.tlc_mc("PeeringMC", "mc.cfg", files={"mc.cfg": _cfg("mc", prof, depth, rich)}, timeout=2400,
                                 heap="6g", workers=min(6, vf.NCPU), coverage=(tier == "thorough"))
            return fn
        mcs = _parallel([mc_job(*x) for x in conf["mc"]], 2)
        states = transitions = 0
        for (prof, depth, rich), r in zip(conf["mc"], mcs):
            states += r.distinct
            transitions += r.generated
            cov["mc"].append({"profile": prof, "depth": depth, "alphabet_richness": list(rich), "distinct": r.distinct,
                              "generated": r.generated, "never_evaluated": r.coverage_zero[:20]})
            bad = [n for n in r.coverage_zero if n.startswith("Prop")]
            if bad:
                raise vf.Infra("vacuous model properties in profile %s: %s" % (prof, bad))

        # 2. one behaviour per transition of the bounded models
        def gen_job(prof, depth, rich):
            def fn():
                return vf.tlc_gen("PeeringMC", "gen.cfg", files={"gen.cfg": _cfg("gen", prof, depth, rich)}, timeout=2400, heap="6g")
            return fn
        gens = _parallel([gen_job(p, d, r) for p, d, r, _ in conf["gen"]], 2)
        traces = []
        for gk, ((prof, depth, rich, stride), g) in enumerate(zip(conf["gen"], gens)):
            behs = vf.dedup_behaviours(g.traces)
            if stride > 1:
                off = seed % stride
                behs = [b for i, b in enumerate(behs) if i % stride == off]
            cov["gen"].append({"profile": prof, "depth": depth, "alphabet_richness": list(rich), "transitions": len(g.traces),
                               "behaviours_replayed": len(behs), "stride": stride})
            bf = os.path.join(work, "beh-%s-%d.json" % (prof, gk))
            with open(bf, "w") as f:
                json.dump(behs, f)
            tp = os.path.join(work, "gen-%s-%d.ndjson" % (prof, gk))
            p = vf.run_harness(binary, ["replay", "-in", bf, "-out", tp])
            if p.returncode != 0:
                raise vf.Infra("h-peer replay failed: %s" % p.stderr[-2000:])
            traces.append(("gen:" + prof, tp, json.loads(p.stdout), behs))
        # 3. seeded random histories over a larger universe
        for i, (prof, n, length) in enumerate(conf["random"]):
            tp = os.path.join(work, "rnd-%s.ndjson" % prof)
            s = seed + i * 7919
            p = vf.run_harness(binary, ["random", "-seed", str(s), "-n", str(n), "-len", str(length), "-profile", prof, "-out", tp])
            if p.returncode != 0:
                raise vf.Infra("h-peer random failed: %s" % p.stderr[-2000:])
            traces.append(("random:" + prof, tp, json.loads(p.stdout), None))
            cov["random"].append({"profile": prof, "histories": n, "length": length, "seed": s})

        # 3b. end to end: TLC's transitions chained into walks + seeded random walks, several harness processes
        e2e_jobs = []     # (name, behaviours or None, argv, trace path)
        for gi, (depth, rich, wlen, nwalks) in enumerate(conf["e2e_gen"]):
            g = vf.tlc_gen("PeeringMC", "gen.cfg", files={"gen.cfg": _cfg("gen", "e2e", depth, rich)}, timeout=2400, heap="6g")
            walks, n_edges, n_cov = _tour(g.traces, wlen, rot=seed)
            if nwalks is not None and len(walks) > nwalks:
                step = max(1, len(walks) // nwalks)
                walks = [walks[(seed + j * step) % len(walks)] for j in range(nwalks)]
            cov["gen"].append({"profile": "e2e", "depth": depth, "alphabet_richness": list(rich), "transitions": n_edges,
                               "transitions_in_tour": n_cov, "walks_replayed": len(walks), "steps_replayed": sum(len(w) - 1 for w in walks)})
            for k in range(E2E_PROCS):
                part = walks[k::E2E_PROCS]
                if not part:
                    continue
                bf = os.path.join(work, "beh-e2e-%d-%d.json" % (gi, k))
                with open(bf, "w") as f:
                    json.dump(part, f)
                tp = os.path.join(work, "gen-e2e-%d-%d.ndjson" % (gi, k))
                e2e_jobs.append(("gen:e2e", part, ["replay", "-in", bf, "-out", tp], tp))
        nw, wl = conf["e2e_random"]
        for k in range(E2E_PROCS):
            n = nw // E2E_PROCS + (1 if k < nw % E2E_PROCS else 0)
            if n == 0:
                continue
            tp = os.path.join(work, "rnd-e2e-%d.ndjson" % k)
            s = seed * 1000 + 31 * k + 7
            e2e_jobs.append(("random:e2e", None, ["random", "-seed", str(s), "-n", str(n), "-len", str(wl), "-profile", "e2e", "-out", tp], tp))
            cov["random"].append({"profile": "e2e", "histories": n, "length": wl, "seed": s})

        def e2e_job(argv):
            def fn():
                p = vf.run_harness(binary, argv, timeout=7200)
                if p.returncode != 0:
                    raise vf.Infra("h-peer end-to-end run failed: %s" % p.stderr[-2000:])
                return json.loads(p.stdout)
            return fn
        metas = _parallel([e2e_job(a) for _, _, a, _ in e2e_jobs], E2E_PROCS * 2)
        # one trace per source: behaviour numbers made global, replay inputs concatenated alike
        for src in ("gen:e2e", "random:e2e"):
            rows_all, behs_all, nb = [], ([] if src == "gen:e2e" else None), 0
            for (name, behs, _, tp), meta in zip(e2e_jobs, metas):
                if name != src:
                    continue
                for r in vf.read_ndjson(tp):
                    r["b"] += nb
                    rows_all.append(r)
                nb += meta["behaviours"]
                if behs_all is not None:
                    behs_all.extend(behs)
            if rows_all:
                tp = os.path.join(work, src.replace(":", "-") + ".ndjson")
                vf.write_ndjson(tp, rows_all)
                traces.append((src, tp, {"behaviours": nb, "events": len(rows_all)}, behs_all))

        # 4. TLC judges every recorded step
        n_beh = n_events = 0
        e2e_lat = []
        samples = []
        pred_hits = {}
        feats = {}
        classes = set()
        for name, tp, meta, behs in traces:
            rows, rejects = _validate_file(tp, meta["events"], work)
            n_beh += meta["behaviours"]
            n_events += meta["events"]
            if rows and len(samples) < 5:
                k = min(len(rows) - 1, 3)
                samples.append({"source": name, "cmd": rows[k]["cmd"], "impl_result": rows[k]["res"],
                                "impl_read": rows[k].get("csn", rows[k].get("svclist")),
                                "accepted_by_tlc": not any(line == k + 1 for line, _ in rejects)})
            prev = None
            prev_e = None
            ctx = {}
            for e in rows:
                pre = e.get("pre", prev)
                if "xcat" in e:
                    if "xpre" in e:
                        prev_e, ctx = None, {}
                    fs = _features_e2e(prev_e, e, ctx)
                    lat = e["settle"].get("lat_ms")
                    if lat is not None:
                        e2e_lat.append(lat)
                    prev_e = e
                else:
                    fs = _features(pre, e)
                for x in fs:
                    feats[x] = feats.get(x, 0) + 1
                if fs:
                    classes.add((cmd_kind(e["cmd"]),) + tuple(sorted(fs)))
                prev = e["post"]
            for line, names in rejects:
                cmd = rows[line - 1]["cmd"]
                for nm in names:
                    pred_hits[nm] = pred_hits.get(nm, 0) + 1
                    sig = "%s:%s:%s" % (PID, nm, cmd_kind(cmd))
                    verdict.add(sig, "predicate %s rejected by TLC at %s line %d: cmd=%s impl_res=%s" % (
                        nm, name, line, json.dumps(cmd)[:400], json.dumps(rows[line - 1]["res"])[:200]),
                        {"kind": "peer-history", "history": history_of(rows, line, behs), "predicate": nm})
        missing = sorted(REQUIRED_FEATURES - set(feats))
        if missing:
            raise vf.Infra("vacuity: situations never exercised on the implementation: %s" % missing)
        n_new = verdict.finish()
        coverage = {
            "states": states, "transitions": transitions,
            "traces_validated_against_impl": n_beh,
            "impl_steps_validated": n_events,
            "samples": samples,
            "evaluations": n_events,
            "distinct_nontrivial": len(classes),
            "rule": "every transition of the bounded TLC models (one behaviour each, common prefixes recorded once) and every step of seeded "
                    "random histories is executed through the real peerstream handlers / ExportedServicesForPeer and judged by TLC "
                    "(PeeringTrace); distinct_nontrivial = number of distinct (command kind, set of exercised situations) classes among "
                    "the judged implementation steps, situations listed in situations_exercised",
            "situations_exercised": feats,
            "e2e_replication_latency_ms": {"steps": len(e2e_lat), "max": max(e2e_lat) if e2e_lat else None,
                                           "median": sorted(e2e_lat)[len(e2e_lat) // 2] if e2e_lat else None},
            "model_check": cov["mc"], "generation": cov["gen"], "random": cov["random"],
            "predicates": sorted(PRED_DOC), "predicate_doc": PRED_DOC,
            "rejected_steps_by_predicate": pred_hits,
            "known_findings_matched": verdict.known_hit,
            "exhaustive": False,
        }
        vf.write_evidence(PID, tier, "model_checking", coverage, ASSUMPTIONS, time.time() - t0, n_new)
        return 1 if n_new else 0
    finally:
        shutil.rmtree(work, ignore_errors=True)


def _run_history(binary, work, hist, fault=None):
    bf = os.path.join(work, "beh.json")
    with open(bf, "w") as f:
        json.dump([hist], f)
    tp = os.path.join(work, "t.ndjson")
    args = ["replay", "-in", bf, "-out", tp]
    if fault:
        args += ["-fault", fault]
    p = vf.run_harness(binary, args)
    if p.returncode != 0:
        raise vf.Infra(p.stderr[-2000:])
    n = json.loads(p.stdout)["events"]
    r = vf.tlc_validate("PeeringTrace", "PeeringTrace.cfg", tp, nevents=n, timeout=900)
    return vf.read_ndjson(tp), r.rejects


def replay(path):
    rp = json.load(open(path))
    hist = rp["replay"]["history"]
    binary = vf.build("h-peer")
    work = vf.new_scratch("verif-replay-")
    try:
        rows, rejects = _run_history(binary, work, hist)
        for line, names in rejects:
            print("step %d rejected: %s cmd=%s res=%s" % (line, names, json.dumps(rows[line - 1]["cmd"])[:500], json.dumps(rows[line - 1]["res"])))
            if "csn" in rows[line - 1]:
                print("  CheckServiceNodes after the step: %s" % json.dumps(rows[line - 1]["csn"]))
        if rejects:
            print("VIOLATION property=%s replay=%s" % (PID, path))
            return 1
        print("replay accepted: %d steps" % len(rows))
        return 0
    finally:
        shutil.rmtree(work, ignore_errors=True)


SELFTEST_HISTORY = [
    {"t": "seed", "rows": {"nodes": [{"peer": "", "node": "n1", "addr": "10.0.0.9"}, {"peer": "p2", "node": "n1", "addr": "10.0.0.8"}],
                           "svcs": [{"peer": "", "node": "n1", "id": "w1", "name": "web", "ver": "9"}, {"peer": "p2", "node": "n1", "id": "w1", "name": "web", "ver": "8"}],
                           "chks": [{"peer": "", "node": "n1", "cid": "nc", "sid": "", "st": "passing"}]}},
    {"t": "upd", "peer": "p1", "svc": "web", "snap": [
        {"node": "n1", "addr": "10.0.0.1", "nchk": [{"cid": "nc", "st": "critical"}], "insts": [{"id": "w1", "ver": "1", "schk": [{"cid": "w1c", "st": "passing"}]}]},
        {"node": "n2", "addr": "10.0.0.1", "nchk": [], "insts": [{"id": "w2", "ver": "1", "schk": []}]}]},
    {"t": "upd", "peer": "p1", "svc": "web", "snap": [
        {"node": "n1", "addr": "10.0.0.1", "nchk": [{"cid": "nc", "st": "critical"}], "insts": [{"id": "w1", "ver": "1", "schk": []}]}]},
    {"t": "list", "peer": "p1", "names": [], "twin": {"web": "web-sidecar-proxy"}},
    {"t": "export", "peer": "p1", "cfg": [{"name": "web", "peers": ["p2"]}, {"name": "api", "peers": ["p1", "p2"]}],
     "lsvcs": [{"name": "web", "kind": ""}, {"name": "api", "kind": ""}], "resolvers": []},
]


SELFTEST_E2E = [
    {"t": "seed", "peer": "p1", "consumer": "c1", "gw": False,
     "rows": {"nodes": [{"peer": "", "node": "n1", "addr": "10.0.0.9"}], "svcs": [{"peer": "", "node": "n1", "id": "w1", "name": "web", "ver": "9"}], "chks": []},
     "xrows": [{"t": "xreg", "peer": "p1", "consumer": "c1", "node": "n1", "addr": "10.0.0.1", "id": "w1", "name": "web", "cid": "w1c", "ver": "1", "st": "passing", "nst": "none"},
               {"t": "xreg", "peer": "p1", "consumer": "c1", "node": "n1", "addr": "10.0.0.1", "id": "a1", "name": "api", "cid": "a1c", "ver": "1", "st": "passing", "nst": "none"}]},
    {"t": "xcfg", "peer": "p1", "consumer": "c1", "cfg": [{"name": "web", "peers": ["c1"]}]},
    {"t": "xcfg", "peer": "p1", "consumer": "c1", "cfg": [{"name": "api", "peers": ["c1", "c2"]}, {"name": "web", "peers": ["c2"]}]},
    {"t": "xreg", "peer": "p1", "consumer": "c1", "node": "n1", "addr": "10.0.0.1", "id": "w1", "name": "web", "cid": "w1c", "ver": "2", "st": "critical", "nst": "none"},
]


def selftest():
    """binding demonstration: (i) corrupt recorded fields of a good trace, (ii) perturb the real calls
    through the harness shim; TLC must reject each, and accept the unperturbed run."""
    binary = vf.build("h-peer")
    work = vf.new_scratch("verif-selftest-")
    out = {}
    ok = True
    try:
        rows, rejects = _run_history(binary, work, SELFTEST_HISTORY)
        out["clean"] = rejects
        ok &= rejects == []

        def corrupt(name, fn, expect):
            nonlocal ok
            rs = json.loads(json.dumps(rows))
            fn(rs)
            tp = os.path.join(work, "c.ndjson")
            vf.write_ndjson(tp, rs)
            r = vf.tlc_validate("PeeringTrace", "PeeringTrace.cfg", tp, nevents=len(rs))
            got = sorted({n for _, ns in r.rejects for n in ns})
            out[name] = got
            if not set(expect) <= set(got):
                ok = False
                print("selftest %s: expected %s, TLC said %s" % (name, expect, got))
        corrupt("local-row-rewritten", lambda rs: rs[1]["post"]["nodes"][0].update(x="ffffffffffff"), ["NILocal"])
        corrupt("other-peer-row-dropped", lambda rs: rs[1]["post"]["svcs"].remove(next(s for s in rs[1]["post"]["svcs"] if s["peer"] == "p2")), ["NIOtherPeers"])
        corrupt("instance-not-removed", lambda rs: rs[2]["post"]["svcs"].append(dict(next(s for s in rs[1]["post"]["svcs"] if s["id"] == "w2"))), ["MirrorInstances"])
        corrupt("check-status-wrong", lambda rs: next(c for c in rs[1]["post"]["chks"] if c["peer"] == "p1" and c["cid"] == "nc").update(st="passing"), ["MirrorNodeChecks"])
        corrupt("session-deleted", lambda rs: rs[1]["post"]["rest"].remove(next(r for r in rs[1]["post"]["rest"] if r["tbl"] == "sessions")), ["NIRest"])
        corrupt("query-disagrees", lambda rs: rs[1]["csn"].pop(), ["QueryAgrees"])
        corrupt("list-keeps-unexported", lambda rs: (rs[3]["post"].update(json.loads(json.dumps(rs[2]["post"])))), ["ListPrunes"])
        corrupt("export-to-non-consumer", lambda rs: rs[4]["res"]["services"].append("web"), ["ExportOnlyIfConsumer"])
        # end to end: a good run, then (i) the swapped-out service re-appears on the importer, (ii) an exported instance is missing
        erows, erej = _run_history(binary, work, SELFTEST_E2E)
        out["e2e-clean"] = erej
        ok &= erej == []

        def corrupt_e2e(name, fn, expect):
            nonlocal ok
            rs = json.loads(json.dumps(erows))
            fn(rs)
            tp = os.path.join(work, "ce.ndjson")
            vf.write_ndjson(tp, rs)
            r = vf.tlc_validate("PeeringTrace", "PeeringTrace.cfg", tp, nevents=len(rs))
            got = sorted({n for _, ns in r.rejects for n in ns})
            out[name] = got
            if not set(expect) <= set(got):
                ok = False
                print("selftest %s: expected %s, TLC said %s" % (name, expect, got))
        corrupt_e2e("e2e-unexported-service-reappears", lambda rs: rs[3]["post"].update(json.loads(json.dumps(rs[1]["post"]))), ["E2EOnlyExported"])
        corrupt_e2e("e2e-exported-instance-missing", lambda rs: rs[2]["post"]["svcs"].remove(next(x for x in rs[2]["post"]["svcs"] if x["peer"] == "p1")), ["E2EMirror"])
        corrupt_e2e("e2e-health-not-updated", lambda rs: next(c for c in rs[1]["post"]["chks"] if c["peer"] == "p1").update(st="critical"), ["E2EMirror"])
        for fault, expect in (("dropdereg", "MirrorInstances"), ("touchlocal", "NILocal"), ("overexport", "ExportOnlyIfConsumer")):
            _, rejects = _run_history(binary, work, SELFTEST_HISTORY, fault=fault)
            got = sorted({n for _, ns in rejects for n in ns})
            out["fault:" + fault] = got
            if expect not in got:
                ok = False
                print("selftest fault %s: expected %s, TLC said %s" % (fault, expect, got))
        os.makedirs(os.path.join(vf.VERIF, "evidence", "selftest"), exist_ok=True)
        with open(os.path.join(vf.VERIF, "evidence", "selftest", PID + ".json"), "w") as f:
            json.dump({"property": PID, "ok": ok, "rejections": out}, f, indent=1, sort_keys=True)
        print("selftest %s: %s" % (PID, "ok" if ok else "FAILED"))
        for k, v in out.items():
            print("  %-26s -> %s" % (k, v))
        return 0 if ok else 2
    finally:
        shutil.rmtree(work, ignore_errors=True)
