"""C15 - discovery-chain compilation is closed, terminating and deterministic, and the write-time graph
validation agrees with the compiler (spec/DiscoChain.tla, harness/cmd/h-disco).

  1. TLC checks the reference semantics and the store model exhaustively (DiscoChain_mc.cfg)
  2. TLC prints one behaviour per transition of that model (DiscoChain_gen.cfg); h-disco executes each
     against the real state.Store and the real discoverychain.Compile (direct and through the store,
     several evaluation contexts, repeated with shuffled inputs, under a watchdog)
  3. h-disco's seeded random driver does the same over a larger universe (5 services, 3 subsets, 5
     protocols, datacenters, all failover forms, CAS writes, invalid entries, overrides)
  4. every recorded event is judged by TLC (DiscoChainTrace) ; rejected events become signatures
"""
import json
import os
import shutil
import time
from concurrent.futures import ThreadPoolExecutor

import vf

PID = "C15"

STORE_PREDS = {"valid", "cas", "accepted-but-breaks-direct-chain", "accepted-but-breaks-transitive-chain",
               "accepted-but-breaks-chain-under-tcp-override", "rejected-but-compiles", "state", "reject-unchanged"}
COMPILE_PREDS = {"Terminates", "Deterministic-graph", "Deterministic-output", "NoPanic", "read-only", "ok-iff-spec-ok",
                 "err-class", "UniqueIds", "Closed", "Acyclic", "AllPathsEndInResolverWithTarget", "targets", "graph"}
DOC = {
    "Terminates": "every discoverychain.Compile call returned: each call runs in a goroutine under a watchdog (20 s scaled by machine load, must expire twice in a row; twice that for a store write, whose validation compiles inside the transaction); a call that does not return is recorded as result class no-return, which the specification (error class or graph) never allows",
    "Deterministic-graph": "all repeated compilations (shuffled entry/map insertion orders) return the same graph: start, nodes, edges in order, targets, protocol",
    "Deterministic-output": "all repeated compilations return byte-identical complete outputs (digest of the whole CompiledDiscoveryChain, incl. split weights)",
    "NoPanic": "Compile did not panic",
    "read-only": "compiling changes no row of the store",
    "ok-iff-spec-ok": "Compile succeeds exactly when DiscoChain!Chain on the implementation's stored entries has no error",
    "err-class": "a Compile error belongs to the classes the reference assembly meets (cycle / protocol / missingSubset)",
    "UniqueIds": "node and target ids of the real output are unique",
    "Closed": "DiscoChain!Closed on the REAL output: start, every NextNode, every resolver target and failover target exists",
    "Acyclic": "DiscoChain!Acyclic on the REAL output: no node reaches itself",
    "AllPathsEndInResolverWithTarget": "on the REAL output every node reachable from the start is a router/splitter with a way out or a resolver with an existing target",
    "targets": "the (service, subset, datacenter) targets of the real output equal the reference chain's",
    "graph": "the real output with ids replaced by what they denote equals the reference graph (after flattening and pruning) and the protocol agrees",
    "valid": "Normalize+Validate rejects an entry exactly when DiscoChain!ValidEntry does",
    "cas": "EnsureConfigEntryCAS / DeleteConfigEntryCAS apply exactly when the index matches (0 = must not exist)",
    "accepted-but-breaks-direct-chain": "StoredSetsAlwaysCompile at the breaking step: a write/delete that stops the written service's own chain or a chain naming it directly from compiling must be rejected",
    "accepted-but-breaks-transitive-chain": "StoredSetsAlwaysCompile at the breaking step: ... or any chain that reaches the written service through other entries",
    "accepted-but-breaks-chain-under-tcp-override": "StoredSetsAlwaysCompile for OverrideProtocol=tcp: an accepted write must not make a chain uncompilable in the evaluation context that ignores routers/splitters",
    "rejected-but-compiles": "a write/delete after which every chain compiles is accepted",
    "state": "an accepted write/delete leaves exactly the proposed entry set (ModifyIndex = command index)",
    "reject-unchanged": "a rejected / CAS-failed / invalid write leaves the entry table and every other table unchanged",
}
ASSUMPTIONS = [
    "TLC evaluates spec/DiscoChainTrace.tla correctly",
    "harness/internal/discoh projects by field copies; error classes are derived from words of the message (circular / inconsistent protocols / does not permit advanced routing / does not have a subset)",
    "one namespace/partition (CE), no peers, no sameness groups, no external SNI; ingress gateways and L7 intentions are outside the universe",
    "service names contain no '.'",
    "entries go through Normalize+Validate before the store, as in the ConfigEntry.Apply endpoint",
]

TIERS = {
    "quick": dict(bound=2, actx=2, rnd=[(14, 25)], reps=5, wide=None, shards=8),
    "thorough": dict(bound=3, actx=3, rnd=[(90, 40), (90, 40), (30, 100)], reps=6, wide=2, shards=10),
}


def cfg(name, bound, profile="core"):
    s = open(os.path.join(vf.SPEC, name)).read()
    return s.replace("MaxEntries = 3", "MaxEntries = %d" % bound).replace('Profile = "core"', 'Profile = "%s"' % profile)


def cmd_kind(c):
    return "compile" if c["t"] == "compile" else "store"


def watchdog_s():
    """bound of one Compile call: 20 s, scaled for a loaded machine (the property is termination, not speed)"""
    try:
        load = os.getloadavg()[0] / max(1, vf.NCPU)
    except OSError:
        load = 1.0
    return int(20 * min(3.0, max(1.0, load)))


MAX_RELAUNCH = 2


def harness(binary, args, what):
    """Runs h-disco. Exit 3 = some call did not return (recorded as result class "no-return", judged by TLC).
    When the process ended early (too many abandoned calls, memory) a fresh process resumes behind the
    behaviours that did not return; the traces are concatenated into the -out file."""
    out = args[args.index("-out") + 1]
    base = [a for a in args]
    skip = []
    meta = {"behaviours": 0, "events": 0, "hung": False, "noreturn": [], "truncated": False}
    resume = 0
    for attempt in range(MAX_RELAUNCH + 1):
        part = out if attempt == 0 else "%s.part%d" % (out, attempt)
        a = [x for x in base]
        a[a.index("-out") + 1] = part
        a += ["-watchdog", "%ds" % watchdog_s()]
        if attempt:
            a += ["-from", str(resume), "-skip", ",".join(str(x) for x in skip)]
        p = vf.run_harness(binary, a, timeout=3000)
        if p.returncode not in (0, 3):
            raise vf.Infra("h-disco %s failed rc=%s: %s" % (what, p.returncode, p.stderr[-2000:]))
        m = json.loads(p.stdout.strip().splitlines()[-1])
        if attempt:
            with open(out, "a") as f, open(part) as g:
                shutil.copyfileobj(g, f)
            os.remove(part)
        meta["behaviours"] += m["behaviours"]
        meta["events"] += m["events"]
        meta["hung"] = meta["hung"] or m["hung"]
        meta["noreturn"] += m.get("noreturn", [])
        skip += m.get("noreturn", [])
        resume = m.get("resume", -1)
        if resume < 0:
            break
        if p.returncode == 3 and not m.get("noreturn") and attempt > 0:
            break   # ended by the memory guard without a culprit twice: give up resuming
    else:
        meta["truncated"] = True
    if resume >= 0:
        meta["truncated"] = True
        vf.log("[c15] %s: stopped after %d calls that did not return (behaviours %s); not resumed beyond behaviour %d" % (
            what, len(meta["noreturn"]), meta["noreturn"], resume))
    return meta


def dedup(paths, out):
    """Events are self-contained and judged on their own: identical (cmd, pre, post, res) need one judgement.
    Returns (unique rows with origin, total)."""
    seen = {}
    total = 0
    for src, path, behs in paths:
        with open(path) as f:
            for line in f:
                line = line.strip()
                if not line:
                    continue
                total += 1
                ev = json.loads(line)
                if ev["cmd"]["t"] == "compile" and "set" in ev["cmd"]:
                    # an explicit entry set is compiled: the judgement does not read the stored entries at all
                    key = json.dumps([ev["cmd"], ev["res"]], sort_keys=True)
                elif ev["cmd"]["t"] == "compile":
                    # CompileJudge reads the entry bodies only: representatives are chosen modulo ModifyIndex
                    strip = lambda st: [{k: v for k, v in e.items() if k != "mi"} for e in st["ents"]]
                    key = json.dumps([ev["cmd"], strip(ev["pre"]), strip(ev["post"]), ev["res"]], sort_keys=True)
                else:
                    key = json.dumps([ev["cmd"], ev["pre"], ev["post"], ev["res"]], sort_keys=True)
                if key not in seen:
                    seen[key] = (ev, src, behs)
    rows = list(seen.values())
    with open(out, "w") as f:
        for ev, _, _ in rows:
            f.write(json.dumps({"cmd": ev["cmd"], "pre": ev["pre"], "post": ev["post"], "res": ev["res"]}, separators=(",", ":")))
            f.write("\n")
    return rows, total


def history_of(ev, behs):
    """commands that lead to the event: the behaviour up to its k-th command, plus the compile command itself"""
    h = [c for c in behs[ev["h"]][:ev["k"]]]
    if ev["cmd"]["t"] == "compile":
        h = h + [ev["cmd"]]
    return h


def random_histories(path):
    """the random driver records every command: rebuild the histories from the trace (a history that was
    resumed by a fresh process is recorded twice: commands are keyed by their step)"""
    steps = {}
    for ev in vf.read_ndjson(path):
        if ev["cmd"]["t"] != "compile":
            steps.setdefault(ev["h"], {})[ev["k"]] = ev["cmd"]
    return {h: [d[k] for k in sorted(d)] for h, d in steps.items()}


def validate(path, n):
    return vf.tlc_validate("DiscoChainTrace", "DiscoChainTrace.cfg", path, nevents=n, timeout=3000, heap="12g")


def judge(rows, rejects, verdict, pred_hits):
    for line, names in rejects:
        ev, src, behs = rows[line - 1]
        for nm in names:
            pred_hits[nm] = pred_hits.get(nm, 0) + 1
            sig = "%s:%s:%s" % (PID, nm, cmd_kind(ev["cmd"]))
            verdict.add(sig, "predicate %s rejected by TLC (%s, behaviour %d step %d): cmd=%s impl_res=%s" % (
                nm, src, ev["h"], ev["k"], json.dumps(ev["cmd"])[:400],
                json.dumps({k: v for k, v in ev["res"].items() if k not in ("g", "full")})[:300]),
                {"kind": "disco-history", "history": history_of(ev, behs), "predicate": nm})


def validate_sharded(rows, work, shards):
    """TLC judges the distinct events; the file is cut into shards validated by concurrent TLC processes
    (events are self-contained, so any cut is sound). Returns [(row index 1-based, names)]."""
    n = len(rows)
    shards = max(1, min(shards, (n + 999) // 1000))
    size = (n + shards - 1) // shards
    jobs = []
    for k in range(shards):
        part = rows[k * size:(k + 1) * size]
        if not part:
            continue
        p = os.path.join(work, "unique-%d.ndjson" % k)
        with open(p, "w") as f:
            for ev, _, _ in part:
                f.write(json.dumps({"cmd": ev["cmd"], "pre": ev["pre"], "post": ev["post"], "res": ev["res"]}, separators=(",", ":")))
                f.write("\n")
        jobs.append((k * size, p, len(part)))
    out = []
    with ThreadPoolExecutor(max_workers=len(jobs)) as ex:
        futs = [(off, ex.submit(vf.tlc_validate, "DiscoChainTrace", "DiscoChainTrace.cfg", p, nevents=m, timeout=3000, heap="4g")) for off, p, m in jobs]
        for off, fu in futs:
            r = fu.result()
            out += [(off + line, names) for line, names in r.rejects]
    return out


def run(tier):
    t0 = time.time()
    T = TIERS[tier]
    seed = vf.seed()
    binary = vf.build("h-disco")
    work = vf.new_scratch("verif-c15-")
    verdict = vf.Verdict(PID)
    pred_hits = {}
    cov = {"mc": [], "gen": [], "random": []}
    try:
        # 1.+2. exhaustive model check of the core universe; the same TLC run prints one behaviour per transition
        # (DiscoChain_gen.cfg = DiscoChain_mc.cfg + EmitProp), which h-disco executes on the real code
        def check_vacuity(r):
            vacuous = [x for x in r.coverage_zero if x in ("Write", "Delete", "InvWellFormed", "InvStoredSetsAlwaysCompile", "PropAcceptIsGlobal")]
            if vacuous:
                raise vf.Infra("vacuous model check: %s never evaluated" % vacuous)

        def mc_entry(prof, bound, r):
            return {"profile": prof, "max_entries": bound, "distinct": r.distinct, "generated": r.generated, "depth": r.depth,
                    "never_evaluated": r.coverage_zero[:20]}

        def generate_and_replay(prof, bound, actx):
            r = vf.tlc("DiscoChainMC", "gen.cfg", files={"gen.cfg": cfg("DiscoChain_gen.cfg", bound, prof)}, timeout=2400, heap="8g",
                       workers=min(6, vf.NCPU) if prof == "core" else 2)
            if r.rc != 0 or r.distinct == 0:
                raise vf.Infra("model check DiscoChainMC/DiscoChain_gen.cfg (%s) failed rc=%s violated=%s\n%s" % (prof, r.rc, r.violated, r.out[-3000:]))
            if not r.traces:
                raise vf.Infra("generation printed no behaviours")
            behs = r.traces
            bf = os.path.join(work, "beh-%s.json" % prof)
            with open(bf, "w") as f:
                json.dump(behs, f)
            tp = os.path.join(work, "gen-%s.ndjson" % prof)
            meta = harness(binary, ["replay", "-in", bf, "-out", tp, "-auto", "-lastonly", "-actx", str(actx), "-reps", str(T["reps"]),
                                    "-seed", str(seed)], "replay:" + prof)
            return ("gen:" + prof, tp, behs, meta), mc_entry(prof, bound, r)

        # vacuity: TLC -coverage on the smaller bound (coverage slows the big run down a lot)
        def model_check_coverage():
            r = vf.tlc_mc("DiscoChainMC", "mc.cfg", files={"mc.cfg": cfg("DiscoChain_mc.cfg", 2)}, timeout=2400, heap="4g", workers=2, coverage=True)
            check_vacuity(r)
            return {"profile": "core", "max_entries": 2, "never_evaluated": r.coverage_zero[:20]}

        # the systematic universe, model only (thorough)
        def model_check_wide():
            r = vf.tlc_mc("DiscoChainMC", "mc.cfg", files={"mc.cfg": cfg("DiscoChain_mc.cfg", T["wide"], "wide")}, timeout=2400,
                          heap="8g", workers=min(6, vf.NCPU))
            return mc_entry("wide", T["wide"], r)

        # the validation scope of the code as written ("direct"), on the MODEL: TLC is expected to find the stored set that
        # does not compile (informational; the finding itself is judged on the real code in step 4)
        def model_check_direct():
            r = vf.tlc("DiscoChainMC", "DiscoChain_direct.cfg", timeout=1200, heap="4g", workers=2, quiet=True)
            return {"cfg": "DiscoChain_direct.cfg", "violated_on_model": r.violated, "distinct": r.distinct}

        # 3. seeded random histories over the larger universe
        def random_run(i, n, length):
            tp = os.path.join(work, "rnd-%d.ndjson" % i)
            s = seed + i * 7919
            meta = harness(binary, ["random", "-seed", str(s), "-n", str(n), "-len", str(length), "-out", tp, "-reps", str(T["reps"])], "random")
            return ("random:%d" % s, tp, random_histories(tp), meta), {"histories": n, "length": length, "seed": s, "events": meta["events"]}

        # 3b. directed corpus: the histories of the recorded findings (findings/C15-*.json) stay part of every run
        def corpus_run():
            behs = []
            fdir = os.path.join(vf.VERIF, "findings")
            for fn in sorted(os.listdir(fdir)) if os.path.isdir(fdir) else []:
                if fn.startswith(PID + "-") and fn.endswith(".json"):
                    behs.append(json.load(open(os.path.join(fdir, fn)))["replay"]["history"])
            if not behs:
                return None
            bf = os.path.join(work, "corpus.json")
            with open(bf, "w") as f:
                json.dump(behs, f)
            tp = os.path.join(work, "corpus.ndjson")
            meta = harness(binary, ["replay", "-in", bf, "-out", tp, "-auto", "-svcs", "a,b,c,d,e", "-reps", "24", "-seed", str(seed)], "corpus")
            return ("corpus", tp, behs, meta)

        with ThreadPoolExecutor(max_workers=8) as ex:
            f_corpus = ex.submit(corpus_run)
            f_gen = ex.submit(generate_and_replay, "core", T["bound"], T["actx"])
            # cycles located anywhere reachable from the compiled service (behind a router / another splitter)
            f_cyc = ex.submit(generate_and_replay, "cyc", 3, 1)
            f_wide = ex.submit(model_check_wide) if T["wide"] else None
            f_direct = ex.submit(model_check_direct) if tier == "thorough" else None
            f_cov = ex.submit(model_check_coverage) if tier == "thorough" else None
            f_rnd = [ex.submit(random_run, i, n, length) for i, (n, length) in enumerate(T["rnd"])]
            traces = []
            for fu in (f_gen, f_cyc):
                tr, mc = fu.result()
                traces.append(tr)
                cov["mc"].append(mc)
                cov["gen"].append({"profile": mc["profile"], "max_entries": mc["max_entries"], "transitions": len(tr[2])})
            for fu in f_rnd:
                tr, c = fu.result()
                traces.append(tr)
                cov["random"].append(c)
            if f_corpus.result():
                traces.append(f_corpus.result())
                cov["corpus"] = {"histories": len(traces[-1][2]), "events": traces[-1][3]["events"]}
            # 4. TLC judges every distinct event
            up = os.path.join(work, "unique.ndjson")
            rows, total = dedup([(src, tp, b) for src, tp, b, _ in traces], up)
            vf.log("[c15] %.0fs: %d events recorded on the real code, %d distinct to judge" % (time.time() - t0, total, len(rows)))
            rejects = validate_sharded(rows, work, T["shards"])
            vf.log("[c15] %.0fs: judged" % (time.time() - t0))
            if f_wide:
                cov["mc"].append(f_wide.result())
            if f_direct:
                cov["model_of_code_as_written"] = f_direct.result()
            if f_cov:
                cov["tlc_coverage"] = f_cov.result()
        states = sum(m["distinct"] for m in cov["mc"])
        transitions = sum(m["generated"] for m in cov["mc"])
        judge(rows, rejects, verdict, pred_hits)
        hung = any(m.get("hung") for _, _, _, m in traces)
        if hung and "Terminates" not in pred_hits:
            raise vf.Infra("harness reported a call that did not return but TLC did not see the event")
        n_new = verdict.finish()
        # measured coverage
        kinds = {}
        nontrivial = set()
        samples = []
        ncompile = nstore = 0
        for ev, src, _ in rows:
            c, res = ev["cmd"], ev["res"]
            if c["t"] == "compile":
                ncompile += 1
                shape = (res["class"], c["ctx"]["op"], c["src"], len(res["g"]["nodes"]), len(res["g"]["targets"]),
                         tuple(sorted(n["type"] + str(len(n["next"])) + ("f" if n["failover"] else "") for n in res["g"]["nodes"])))
                if res["class"] != "ok" or len(res["g"]["nodes"]) > 1:
                    nontrivial.add(shape)
                kinds["compile/" + res["class"]] = kinds.get("compile/" + res["class"], 0) + 1
            else:
                nstore += 1
                k = "%s.%s.%s/%s" % (c["t"], c["e"]["kind"] if c["t"] == "write" else c["kind"], c.get("mode", "set"), res["class"])
                kinds[k] = kinds.get(k, 0) + 1
                nontrivial.add(("store", k, len(ev["pre"]["ents"])))
            if len(samples) < 5 and ((c["t"] == "compile" and len(res["g"]["nodes"]) > 2) or (c["t"] != "compile" and res["class"] == "reject")) \
                    and not any(s["cmd"]["t"] == c["t"] for s in samples[-1:]):
                samples.append({"source": src, "cmd": c, "stored_entries": [[e["kind"], e["name"]] for e in ev["pre"]["ents"]],
                                "impl_result": {k: v for k, v in res.items() if k not in ("runs", "gruns", "full")}})
        coverage = {
            "states": states, "transitions": transitions,
            "traces_validated_against_impl": sum(m["behaviours"] for _, _, _, m in traces),
            "impl_events_recorded": total, "impl_events_judged_distinct": len(rows),
            "evaluations": len(rows), "compile_events": ncompile, "store_events": nstore,
            "compilations_executed": ncompile * T["reps"],
            "distinct_nontrivial": len(nontrivial),
            "rule": "every transition of the bounded model (a write or delete from every reachable stored set) and every step of the seeded random "
                    "histories is executed on the real store; after every accepted step all chains are compiled by the real compiler; identical "
                    "self-contained events are judged once by TLC. distinct_nontrivial counts distinct (result class, override, path, node/target "
                    "count, node shape multiset) of compile events with an error or more than one node plus distinct (store command kind/mode/"
                    "outcome, stored-set size)",
            "event_kinds": kinds, "samples": samples,
            "model_check": cov["mc"], "generation": cov["gen"], "random": cov["random"],
            "model_of_code_as_written": cov.get("model_of_code_as_written"), "corpus": cov.get("corpus"), "tlc_coverage": cov.get("tlc_coverage"),
            "calls_without_return": sum(len(m.get("noreturn", [])) for _, _, _, m in traces),
            "traces_truncated_after_no_return": [src for src, _, _, m in traces if m.get("truncated")],
            "predicates": sorted(STORE_PREDS | COMPILE_PREDS), "predicate_doc": DOC,
            "rejected_events_by_predicate": pred_hits,
            "known_findings_matched": verdict.known_hit,
            "exhaustive": False,
        }
        vf.write_evidence(PID, tier, "model_checking", coverage, ASSUMPTIONS, time.time() - t0, n_new)
        return 1 if n_new else 0
    finally:
        shutil.rmtree(work, ignore_errors=True)


def replay(path):
    rp = json.load(open(path))
    hist = rp["replay"]["history"]
    binary = vf.build("h-disco")
    work = vf.new_scratch("verif-replay-")
    try:
        bf = os.path.join(work, "beh.json")
        json.dump([hist], open(bf, "w"))
        tp = os.path.join(work, "t.ndjson")
        # a replay ends with the judged command; chains are compiled after every accepted step as in the run
        auto = [] if hist and hist[-1]["t"] == "compile" else ["-auto", "-svcs", "a,b,c,d,e"]
        meta = harness(binary, ["replay", "-in", bf, "-out", tp, "-reps", "24", "-seed", str(vf.seed())] + auto, "replay")
        r = validate(tp, meta["events"])
        rows = vf.read_ndjson(tp)
        bad = 0
        for line, names in r.rejects:
            ev = rows[line - 1]
            print("event %d rejected: %s cmd=%s res=%s" % (line, names, json.dumps(ev["cmd"])[:300],
                                                         json.dumps({k: v for k, v in ev["res"].items() if k != "g"})[:300]))
            bad += 1
        if bad:
            print("VIOLATION property=%s replay=%s" % (PID, path))
            return 1
        print("replay accepted: %d events" % meta["events"])
        return 0
    finally:
        shutil.rmtree(work, ignore_errors=True)


def selftest():
    """binding demonstration: corrupt recorded fields of a good trace and show that TLC rejects them"""
    binary = vf.build("h-disco")
    work = vf.new_scratch("verif-c15-self-")
    try:
        hist = [
            {"t": "write", "idx": 10, "e": {"kind": "proxy", "name": "global", "protocol": "http"}},
            {"t": "write", "idx": 11, "e": {"kind": "resolver", "name": "b", "subsets": ["v1"], "defsub": "v1"}},
            {"t": "write", "idx": 12, "e": {"kind": "splitter", "name": "a", "legs": [{"svc": "", "sub": "", "dc": ""}, {"svc": "b", "sub": "", "dc": ""}]}},
            {"t": "write", "idx": 13, "e": {"kind": "resolver", "name": "c", "redirect": {"svc": "c", "sub": "v7", "dc": ""}, "subsets": ["v7"]}},
            {"t": "write", "idx": 14, "e": {"kind": "router", "name": "a", "routes": [{"svc": "b", "sub": "v9", "dc": ""}]}},
        ]
        bf = os.path.join(work, "beh.json")
        json.dump([hist], open(bf, "w"))
        tp = os.path.join(work, "t.ndjson")
        meta = harness(binary, ["replay", "-in", bf, "-out", tp, "-auto"], "replay")
        rows = vf.read_ndjson(tp)
        r = validate(tp, len(rows))
        if r.rejects:
            print("selftest: clean trace rejected: %s" % r.rejects)
            return 2
        results = []

        def mutate(name, pick, fn, expect):
            rs = json.loads(json.dumps(rows))
            i = next(i for i, e in enumerate(rs) if pick(e))
            fn(rs[i])
            p = os.path.join(work, "m.ndjson")
            vf.write_ndjson(p, rs)
            rr = validate(p, len(rs))
            got = sorted({n for line, names in rr.rejects if line == i + 1 for n in names})
            ok = expect in got
            results.append((name, ok, got))
            print("selftest %-38s -> %s %s" % (name, "REJECTED" if ok else "NOT REJECTED", got))

        big = lambda e: e["cmd"]["t"] == "compile" and e["cmd"]["svc"] == "a" and len(e["res"]["g"]["nodes"]) >= 3
        mutate("drop a target of the compiled graph", big, lambda e: e["res"]["g"]["targets"].pop(), "Closed")
        mutate("redirect an edge to a missing node", big, lambda e: e["res"]["g"]["nodes"][-1]["next"].__setitem__(0, "resolver:zz"), "Closed")
        mutate("make the splitter point at itself", big,
               lambda e: [n["next"].__setitem__(0, n["id"]) for n in e["res"]["g"]["nodes"] if n["type"] == "splitter"], "Acyclic")
        mutate("swap the order of two split legs", big, lambda e: [n["next"].reverse() for n in e["res"]["g"]["nodes"] if n["type"] == "splitter"], "graph")
        mutate("one run returned another digest", big, lambda e: e["res"]["runs"].__setitem__(1, "0000"), "Deterministic-output")
        mutate("report an error as success", lambda e: e["cmd"]["t"] == "write" and e["res"]["class"] == "reject",
               lambda e: e["res"].__setitem__("class", "ok"), "accepted-but-breaks-direct-chain")
        mutate("rejected write changed the table", lambda e: e["cmd"]["t"] == "write" and e["res"]["class"] == "reject",
               lambda e: e["post"]["ents"].pop(), "reject-unchanged")
        mutate("accepted write not stored", lambda e: e["cmd"]["t"] == "write" and e["res"]["class"] == "ok" and e["cmd"]["e"]["kind"] == "splitter",
               lambda e: e["post"]["ents"].pop(), "state")
        mutate("compile hung", big, lambda e: e["res"].__setitem__("hung", True), "Terminates")
        os.makedirs(os.path.join(vf.VERIF, "evidence", "selftest"), exist_ok=True)
        with open(os.path.join(vf.VERIF, "evidence", "selftest", "C15.json"), "w") as f:
            json.dump([{"mutation": n, "rejected": ok, "predicates": got} for n, ok, got in results], f, indent=1)
        return 0 if all(ok for _, ok, _ in results) else 2
    finally:
        shutil.rmtree(work, ignore_errors=True)
