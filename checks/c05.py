"""C05 - transactions are all-or-nothing and isolated."""
from checks import storefam

PREDS = {"txn-atomic", "txn-outcome", "txn-state", "txn-results", "txn-single-index",
         "txn-fault-atomic", "txn-fault-reported", "fault-atomic", "fault-reported"}
DOC = {
    "txn-atomic": "a transaction that reports any error leaves the abstract state unchanged AND the byte-level dump of every "
                  "table row and index row unchanged, fires no memdb watch and publishes no stream event",
    "txn-outcome": "the set of failing op indexes equals the specification's (each op evaluated against the working copy that "
                   "contains the effects of earlier ops)",
    "txn-state": "a committed transaction's post-state equals the fold of its ops (read-your-writes)",
    "txn-results": "returned KV results equal the specification's",
    "txn-single-index": "every row changed by a committed transaction carries the transaction's index",
    "txn-fault-atomic / fault-atomic": "fault point (spec action CommitFails): about one command in fourteen of the random histories commits into a "
                                       "failing change-event generation step (verif hook state.VerifFailChangeProcessing, inside txn.Commit before "
                                       "the memdb commit); the transaction (resp. single write command, the same commit path) leaves every table "
                                       "and index row, every watch and the event stream untouched",
    "txn-fault-reported / fault-reported": "... and reports the failure (a command that would have changed nothing may answer as usual)",
}


def res_filter(cmd):
    return False


def run(tier):
    return storefam.run_store(
        "C05", tier, profiles=["txn"], preds=PREDS, res_filter=res_filter,
        mc_depth={"quick": {"txn": 2}, "thorough": {"txn": 3}},
        gen_depth={"quick": {"txn": 2}, "thorough": {"txn": 3}},
        rnd={"quick": [("txn", 40, 200)], "thorough": [("txn", 500, 300)]},
        level_text="", pred_doc=DOC,
        rpc={"quick": [("txn", 4, 80)], "thorough": [("txn", 25, 150)]},
        assumptions=["TLC 1.8 evaluates spec/StoreTrace.tla correctly", "projection copies fields only",
                     "node/service/check verbs are modelled at base-table level (existence, status, links); their payload "
                     "results are not compared here (C07/C10 look at them)"])


def replay(path):
    return storefam.replay_store("C05", path, PREDS, res_filter)
