"""C06 - blocking-query contract: a change is never missed (spec/Store.tla index rules, spec/QueriesTrace.tla)."""
import json
import os
import shutil
import time

import vf

PID = "C06"
DOC = {
    "missed-change": "the result of a read changed across a write but the reported index did not strictly increase",
    "not-woken": "the result of a read changed across a write but no channel of the WatchSet registered by the read before the write fired",
    "index-decreased": "the reported index of a read decreased across a write that is neither a tombstone reap nor a restore",
}
# ACL list reads are not in the property's list of endpoints
SKIP_FAMILIES = {"acl-tokens", "acl-policies"}
WEAK_FAMILIES = {"connect-service-nodes", "health-connect", "service-dump-kind"}


def cmd_kind(desc):
    w = desc.split(" ")
    if "[moved-check]" in desc:
        # the situation of a recorded finding (a check id re-registered under another service), named in the signature
        return w[0] + "[moved-check]"
    return " ".join(w[:2]) if w[0] in ("kv", "config-entry", "acl", "ca", "session", "peering", "intention", "pq") else w[0]


def run(tier):
    t0 = time.time()
    seed = vf.seed()
    binary = vf.build("h-fsm")
    work = vf.new_scratch("verif-C06-")
    verdict = vf.Verdict(PID)
    try:
        # design level: the KV index rule of the specification never misses a change (all histories up to the bound)
        depth = 4 if tier == "quick" else 5
        cfg = open(os.path.join(vf.SPEC, "StoreMC_c06kv.cfg")).read().replace("MaxDepth = 5", "MaxDepth = %d" % depth)
        m = vf.tlc_mc("StoreMC", "mc.cfg", files={"mc.cfg": cfg}, timeout=2400, heap="16g", workers=min(12, vf.NCPU))
        params = [dict(n=15, len=120, mix="rotate")] if tier == "quick" else [dict(n=120, len=200, mix="rotate"), dict(n=40, len=200, mix="kv")]
        n_hist = n_events = n_obs = 0
        changed = set()
        hits = {}
        samples = []
        for ri, p in enumerate(params):
            logs = os.path.join(work, "logs%d" % ri)
            os.makedirs(logs)
            tp = os.path.join(work, "t%d.ndjson" % ri)
            pr = vf.run_harness(binary, ["c06", "-seed", str(seed + 31 * ri), "-n", str(p["n"]), "-len", str(p["len"]), "-mix", p["mix"], "-out", tp, "-logs", logs], timeout=7200)
            if pr.returncode != 0:
                raise vf.Infra("h-fsm c06 failed: %s" % pr.stderr[-2000:])
            meta = json.loads(pr.stdout)
            r = vf.tlc_validate("QueriesTrace", "QueriesTrace.cfg", tp, nevents=meta["events"], timeout=3000, heap="12g")
            rows = vf.read_ndjson(tp)
            n_hist += meta["histories"]
            n_events += meta["events"]
            nq = rows[0]["nq"] if rows else 0
            for e in rows:
                n_obs += len(e["obs"])
                for o in e["obs"]:
                    if o["r0"] != o["r1"]:
                        changed.add(o["q"])
            if rows and len(samples) < 3:
                e = next((x for x in rows if x["obs"]), rows[0])
                samples.append({"desc": e["desc"], "idx": e["idx"], "obs": e["obs"][:3]})
            for line, names in r.rejects:
                e = rows[line - 1]
                log = json.load(open(os.path.join(logs, "log-%d.json" % e["h"])))
                for nm in names:
                    pred, fam = nm.split(":", 1)
                    if fam.split("@")[0] in SKIP_FAMILIES:
                        continue
                    hits[nm] = hits.get(nm, 0) + 1
                    # Connect reads and the by-kind dump take their index from the destination / kind index entry only
                    # (recorded known finding, whole family); every other family is reported per predicate and command
                    if fam.split("@")[0] in WEAK_FAMILIES:
                        sig = "%s:weak-index:%s" % (PID, fam.split("@")[0])
                    else:
                        sig = "%s:%s:%s:%s" % (PID, pred, fam, cmd_kind(e["desc"]))
                    bad = [o for o in e["obs"] if o["fam"] == fam][:2]
                    verdict.add(sig, "%s on %s across '%s' (history %d entry %d): %s" % (pred, fam, e["desc"], e["h"], e["i"], json.dumps(bad)[:300]),
                                {"kind": "fsm-log", "mode": "c06", "log": log[:e["i"]], "predicate": pred, "family": fam})
        # loop half: the blocking-query loop itself. Model: spec/BlockingQuery.tla (all read histories obeying the index
        # contract x all interleavings of write / pass / wake / timeout / abandon). Binding: REAL blocking RPCs against a
        # real single-node server (agent/blockingquery + Server.SetQueryMeta + every endpoint's query function).
        bq = vf.tlc_mc("BlockingQuery", "BlockingQuery_mc.cfg", timeout=1200, workers=min(8, vf.NCPU))
        bqbin = vf.build("h-bq")
        bn, blen = (3, 26) if tier == "quick" else (8, 70)
        tpb = os.path.join(work, "bq.ndjson")
        pr = vf.run_harness(bqbin, ["-seed", str(seed), "-n", str(bn), "-len", str(blen), "-T", "4000", "-out", tpb], timeout=7200)
        if pr.returncode != 0:
            raise vf.Infra("h-bq failed: %s" % pr.stderr[-2000:])
        bmeta = json.loads(pr.stdout.strip().splitlines()[-1])
        rb = vf.tlc_validate("BlockingQueryTrace", "BlockingQueryTrace.cfg", tpb, nevents=bmeta["events"], timeout=3000)
        brows = vf.read_ndjson(tpb)
        bq_changed = sum(1 for e in brows for o in e["reads"] if o["r0"] != o["r1"])
        bq_calls = sum(len(e["reads"]) for e in brows)
        bq_ambiguous = sum(1 for e in brows for o in e["reads"] if o["r0"] != o["r1"] and 0.8 * e["T"] <= o["ms"] < e["T"])
        for line, names in rb.rejects:
            e = brows[line - 1]
            for nm in names:
                pred, fam = nm.split(":", 1)
                if fam in WEAK_FAMILIES:
                    sig = "%s:weak-index:%s" % (PID, fam)
                else:
                    sig = "%s:bq:%s:%s" % (PID, pred, fam)
                hits["bq:" + nm] = hits.get("bq:" + nm, 0) + 1
                bad = [o for o in e["reads"] if o["fam"] == fam and (o["r0"] != o["r1"] or o["ms"] < 0.8 * e["T"])][:2]
                verdict.add(sig, "blocking RPC: %s on %s across '%s': %s" % (pred, fam, e["desc"], json.dumps(bad)[:400]),
                            {"kind": "bq", "seed": seed, "n": bn, "len": blen, "event": line, "predicate": pred, "family": fam, "desc": e["desc"]})
        # catalog index rules: spec/CatIndex.tla models what every catalog write moves in the index table and what every catalog /
        # health read reports. (1) TLC: no read of the model misses a change or reports a decreasing index, all histories up to the
        # bound; the recorded finding (a check id re-registered under another service) is shown on the model by CatIndex_moved.cfg,
        # which must FAIL. (2) every transition of the model's graph up to depth 2 is replayed into the real store (all in the
        # thorough tier, a seed-rotated third in the quick tier) plus seeded random histories over a wider universe; TLC judges C06
        # on the observations and, separately, the conformance of the code's index rows / read indexes / read results with the model.
        def cicfg(name):
            t = open(os.path.join(vf.SPEC, name)).read()
            return t if tier == "quick" else t.replace("Small = TRUE", "Small = FALSE")
        ci = vf.tlc_mc("CatIndexMC", "ci_mc.cfg", files={"ci_mc.cfg": cicfg("CatIndex_mc.cfg")}, timeout=6000, heap="12g", workers=min(12, vf.NCPU))
        mv = vf.tlc("CatIndexMC", "CatIndex_moved.cfg", workers=min(8, vf.NCPU), timeout=1500, heap="8g", quiet=True)
        if mv.violated != "PropNoMissedChange":
            raise vf.Infra("CatIndex_moved.cfg: the model no longer shows the recorded finding (violated=%s rc=%s)" % (mv.violated, mv.rc))
        cg = vf.tlc_gen("CatIndexMC", "ci_gen.cfg", files={"ci_gen.cfg": cicfg("CatIndex_gen.cfg")}, timeout=3000)
        behs = vf.dedup_behaviours(cg.traces)
        if tier == "quick":
            behs = [b for i, b in enumerate(behs) if i % 3 == seed % 3]
        cibin = vf.build("h-catidx")
        ci_cov = {"model_states": ci.distinct, "model_transitions": ci.generated, "moved_check_model_counterexample": True,
                  "graph_transitions_depth2": len(cg.traces), "behaviours_replayed": len(behs), "events": 0, "obs": 0, "drift_steps": 0, "drift": {}}
        ci_changed = set()
        runs = [("replay", ["replay", "-in", os.path.join(work, "cibehs.json")])]
        json.dump(behs, open(os.path.join(work, "cibehs.json"), "w"))
        rn, rl = (12, 100) if tier == "quick" else (120, 150)
        runs.append(("random", ["random", "-seed", str(seed), "-n", str(rn), "-len", str(rl)]))
        # one service with more instances than a third of the state store's watch limit (8192): single changes deep inside the list
        SCALE_N = 2900
        runs.append(("scale", ["scale", "-n", str(SCALE_N)]))
        for kind, args in runs:
            tpc = os.path.join(work, "ci-%s.ndjson" % kind)
            pr = vf.run_harness(cibin, args + ["-out", tpc], timeout=7200)
            if pr.returncode != 0:
                raise vf.Infra("h-catidx %s failed: %s" % (kind, pr.stderr[-2000:]))
            cmeta = json.loads(pr.stdout.strip().splitlines()[-1])
            rc_ = vf.tlc_validate("CatIndexTrace", "CatIndexTrace.cfg", tpc, nevents=cmeta["events"], timeout=6000, heap="12g")
            crow = vf.read_ndjson(tpc)
            ci_cov["events"] += cmeta["events"]
            n_hist += cmeta["behaviours"]
            for e in crow:
                ci_cov["obs"] += len(e["obs"])
                for o in e["obs"]:
                    if o["r0"] != o["r1"]:
                        ci_changed.add(o["q"])
            if kind == "random" and crow and len(samples) < 4:
                e = next((x for x in crow if x["obs"]), crow[0])
                samples.append({"desc": "catalog index rules: %s" % json.dumps(e["cmd"], sort_keys=True), "idx": e["cmd"]["idx"], "obs": e["obs"][:3]})
            for line, names in rc_.rejects:
                e = crow[line - 1]
                drift = [x for x in names if x.startswith("model:")]
                if drift:
                    ci_cov["drift_steps"] += 1
                    for x in drift:
                        ci_cov["drift"][x] = ci_cov["drift"].get(x, 0) + 1
                    if ci_cov["drift_steps"] <= 3:
                        vf.log("MODEL-DRIFT (not a verdict) CatIndex: %s at %s history %d entry %d: %s" % (drift, kind, e["h"], e["i"], json.dumps(e["cmd"], sort_keys=True)[:300]))
                for nm in names:
                    if nm.startswith("model:"):
                        continue
                    pred, fam = nm.split(":", 1)
                    hits["catidx:" + nm] = hits.get("catidx:" + nm, 0) + 1
                    hist = [x["cmd"] for x in crow if x["h"] == e["h"] and x["i"] <= e["i"]]
                    bad = [o for o in e["obs"] if o["fam"] == fam][:2]
                    rp = {"kind": "catidx", "cmds": hist, "predicate": pred, "family": fam}
                    if kind == "scale":
                        rp = {"kind": "catidx-scale", "n": SCALE_N, "predicate": pred, "family": fam}
                    verdict.add("%s:%s:%s:%s" % (PID, pred, fam, e["cmd"]["t"]),
                                "%s on %s across %s (%s history %d entry %d): %s" % (pred, fam, json.dumps(e["cmd"], sort_keys=True)[:200], kind, e["h"], e["i"], json.dumps(bad)[:300]),
                                rp)
        ci_cov["reads_changed"] = len(ci_changed)
        if len(ci_changed) < 12:
            raise vf.Infra("vacuity: only %d catalog reads of the CatIndex battery ever changed" % len(ci_changed))
        if bq_changed < 40:
            raise vf.Infra("vacuity: only %d parked calls saw their read change" % bq_changed)
        n_new = verdict.finish()
        cov = {"blocking_rpc": {"servers": bn, "writes": bmeta["events"], "parked_calls": bq_calls, "parked_calls_whose_read_changed": bq_changed,
                                "ambiguous_timing_not_judged": bq_ambiguous, "model_states": bq.distinct, "model_transitions": bq.generated},
               "catalog_index_rules": ci_cov,
               "states": m.distinct + bq.distinct + ci.distinct, "transitions": m.generated + bq.generated + ci.generated, "traces_validated_against_impl": n_hist, "samples": samples,
               "evaluations": n_events * nq, "distinct_nontrivial": len(changed),
               "rule": "around every command of seeded logs over every FSM command type the whole read battery (%d reads over every endpoint family of the "
                       "property, local and one peer) is evaluated before and after, each read with its own WatchSet; TLC judges every read whose index or "
                       "result changed or whose watch fired; distinct_nontrivial = distinct reads whose RESULT changed at least once (so the implication was "
                       "exercised)" % nq,
               "reads_in_battery": nq, "observations_judged": n_obs, "predicate_doc": DOC, "rejected_by_predicate": hits,
               "known_findings_matched": verdict.known_hit, "exhaustive": False,
               "model_check_catalog": "CatIndexMC: PropNoMissedChange + PropMonotone over 17 catalog/health reads for all register/deregister histories of 3 commands (2 nodes, 2 service ids, 2 names, 2 checks)",
               "model_check": "StoreMC_c06kv: PropKVListIndex (NoMissedChange + Monotone for KV get/list index rule) for all KV/session histories up to depth %d" % depth}
        if len(changed) < 60:
            raise vf.Infra("vacuity: only %d reads ever changed their result" % len(changed))
        vf.write_evidence(PID, tier, "model_checking", cov,
                          ["index normalisation (an index below 1 is reported as 1) is transcribed from agent/blockingquery into QueriesTrace!Norm",
                           "reads are evaluated directly on state.Store with a fresh memdb.WatchSet; the RPC endpoints add filtering only",
                           "top-level order of list results is not part of the compared result"],
                          time.time() - t0, n_new)
        return 1 if n_new else 0
    finally:
        shutil.rmtree(work, ignore_errors=True)


def replay_catidx(path, rp):
    binary = vf.build("h-catidx")
    work = vf.new_scratch("verif-replay-")
    try:
        bp = os.path.join(work, "b.json")
        tp = os.path.join(work, "t.ndjson")
        if rp["kind"] == "catidx-scale":
            pr = vf.run_harness(binary, ["scale", "-n", str(rp["n"]), "-out", tp], timeout=3600)
            if pr.returncode != 0:
                raise vf.Infra(pr.stderr[-2000:])
            meta = json.loads(pr.stdout)
            r = vf.tlc_validate("CatIndexTrace", "CatIndexTrace.cfg", tp, nevents=meta["events"])
            want = rp["predicate"] + ":" + rp["family"]
            if any(want in ns for _, ns in r.rejects):
                print("rejected: %s in the scale scenario" % want)
                print("VIOLATION property=%s replay=%s" % (PID, path))
                return 1
            print("replay accepted")
            return 0
        json.dump([rp["cmds"]], open(bp, "w"))
        pr = vf.run_harness(binary, ["replay", "-in", bp, "-out", tp], timeout=3600)
        if pr.returncode != 0:
            raise vf.Infra(pr.stderr[-2000:])
        meta = json.loads(pr.stdout)
        r = vf.tlc_validate("CatIndexTrace", "CatIndexTrace.cfg", tp, nevents=meta["events"])
        want = rp["predicate"] + ":" + rp["family"]
        bad = [(l, ns) for l, ns in r.rejects if want in ns and l == meta["events"]]
        if bad:
            print("rejected: %s at the last command" % want)
            print("VIOLATION property=%s replay=%s" % (PID, path))
            return 1
        print("replay accepted")
        return 0
    finally:
        shutil.rmtree(work, ignore_errors=True)


def replay(path):
    rp = json.load(open(path))["replay"]
    if rp.get("kind") in ("catidx", "catidx-scale"):
        return replay_catidx(path, rp)
    binary = vf.build("h-fsm")
    work = vf.new_scratch("verif-replay-")
    try:
        lp = os.path.join(work, "log.json")
        json.dump(rp["log"], open(lp, "w"))
        tp = os.path.join(work, "t.ndjson")
        pr = vf.run_harness(binary, ["c06", "-log", lp, "-out", tp], timeout=3600)
        if pr.returncode != 0:
            raise vf.Infra(pr.stderr[-2000:])
        meta = json.loads(pr.stdout)
        r = vf.tlc_validate("QueriesTrace", "QueriesTrace.cfg", tp, nevents=meta["events"])
        rows = vf.read_ndjson(tp)
        want = rp["predicate"] + ":" + rp["family"]
        bad = [(l, ns) for l, ns in r.rejects if want in ns and l == len(rows)]
        for l, ns in bad:
            print("rejected: entry %d (%s): %s %s" % (l, rows[l - 1]["desc"], want, json.dumps([o for o in rows[l - 1]["obs"] if o["fam"] == rp["family"]])[:400]))
        if bad:
            print("VIOLATION property=%s replay=%s" % (PID, path))
            return 1
        print("replay accepted")
        return 0
    finally:
        shutil.rmtree(work, ignore_errors=True)
