"""Shared driver for the properties decided on raft logs over every FSM command type (C01, C02)."""
import json
import os
import shutil
import time

import vf


def ne(l):
    return [x for x in l if x != ""]


def run_fsm(pid, tier, mode, *, mc, params, doc, assumptions, preds):
    """mode: h-fsm mode (c01 / c02). params[tier] = list of dict(n, len, mix, cuts?)"""
    t0 = time.time()
    seed = vf.seed()
    binary = vf.build("h-fsm")
    work = vf.new_scratch("verif-%s-" % pid)
    verdict = vf.Verdict(pid)
    try:
        cfg = open(os.path.join(vf.SPEC, "Replicas_mc.cfg")).read()
        for k, v in mc[tier].items():
            import re
            cfg = re.sub(r"%s = \S+" % k, "%s = %s" % (k, v), cfg)
        m = vf.tlc_mc("Replicas", "mc.cfg", files={"mc.cfg": cfg}, timeout=2400, heap="16g", workers=min(12, vf.NCPU), coverage=False)
        n_hist = n_events = 0
        samples = []
        hits = {}
        nontrivial = set()
        runs = []
        for ri, p in enumerate(params[tier]):
            logs = os.path.join(work, "logs%d" % ri)
            os.makedirs(logs)
            tp = os.path.join(work, "t%d.ndjson" % ri)
            args = [mode, "-seed", str(seed + 101 * ri), "-n", str(p["n"]), "-len", str(p["len"]), "-mix", p["mix"], "-out", tp, "-logs", logs]
            if "cuts" in p:
                args += ["-cuts", str(p["cuts"])]
            pr = vf.run_harness(binary, args, timeout=7200)
            if pr.returncode != 0:
                raise vf.Infra("h-fsm %s failed: %s" % (mode, pr.stderr[-2000:]))
            meta = json.loads(pr.stdout)
            runs.append(dict(p, seed=seed + 101 * ri, events=meta["events"]))
            r = vf.tlc_validate("ReplicasTrace", "ReplicasTrace.cfg", tp, nevents=meta["events"], timeout=3000, heap="12g")
            rows = vf.read_ndjson(tp)
            n_hist += meta["histories"]
            n_events += meta["events"]
            for e in rows:
                nontrivial.add((e["desc"].split(" at cut")[0], e.get("sample", "")[:12]))
            if len(samples) < 4 and rows:
                k = min(len(rows) - 1, 11)
                samples.append({k2: rows[k][k2] for k2 in ("h", "i", "idx", "desc", "res", "dump", "q")})
            for line, names in r.rejects:
                e = rows[line - 1]
                log = json.load(open(os.path.join(logs, "log-%d.json" % e["h"])))
                for nm in names:
                    if nm not in preds:
                        continue
                    hits[nm] = hits.get(nm, 0) + 1
                    if nm == "state-agree":
                        subs = e.get("difftables") or ["?"]
                    elif nm == "queries-agree":
                        subs = e.get("diffqueries") or ["?"]
                    else:
                        subs = [e["desc"].split(" ")[0]]
                    for sub in subs:
                        sig = "%s:%s:%s" % (pid, nm, sub)
                        verdict.add(sig, "%s rejected by TLC: history %d entry %d (%s) cut=%s: %s %s" % (
                            nm, e["h"], e["i"], e["desc"], e.get("cut"), (e.get("diff") or "")[:600], (e.get("qdiff") or "")[:300]),
                            {"kind": "fsm-log", "mode": mode, "log": log[:max(e["i"], 1)] if mode == "c01" else log, "cut": e.get("cut"), "predicate": nm, "sub": sub})
        n_new = verdict.finish()
        cov = {"states": m.distinct, "transitions": m.generated, "traces_validated_against_impl": n_hist,
               "samples": samples, "evaluations": n_events, "distinct_nontrivial": len(nontrivial),
               "rule": "seeded raft logs over every registered FSM command type (accepted and rejected commands) are applied to real fsm.FSM "
                       "replicas; each log entry (and each snapshot/restore point) is one event whose result / full-dump / read-battery digests "
                       "TLC compares (ReplicasTrace); distinct_nontrivial = distinct (command description, result class) pairs",
               "runs": runs, "predicate_doc": doc, "rejected_by_predicate": hits, "known_findings_matched": verdict.known_hit,
               "model_check": {"module": "Replicas", "constants": mc[tier]}, "exhaustive": False}
        vf.write_evidence(pid, tier, "model_checking", cov, assumptions, time.time() - t0, n_new)
        return 1 if n_new else 0
    finally:
        shutil.rmtree(work, ignore_errors=True)


def replay_fsm(pid, path, mode, preds):
    rp = json.load(open(path))["replay"]
    binary = vf.build("h-fsm")
    work = vf.new_scratch("verif-replay-")
    try:
        lp = os.path.join(work, "log.json")
        json.dump(rp["log"], open(lp, "w"))
        tp = os.path.join(work, "t.ndjson")
        args = [mode, "-log", lp, "-out", tp]
        pr = vf.run_harness(binary, args, timeout=3600)
        if pr.returncode != 0:
            raise vf.Infra(pr.stderr[-2000:])
        meta = json.loads(pr.stdout)
        r = vf.tlc_validate("ReplicasTrace", "ReplicasTrace.cfg", tp, nevents=meta["events"])
        rows = vf.read_ndjson(tp)
        bad = 0
        for line, names in r.rejects:
            e = rows[line - 1]
            if rp["predicate"] in names and (rp.get("cut") is None or e.get("cut") == rp.get("cut")):
                subs = e.get("difftables", []) + e.get("diffqueries", []) + [e["desc"].split(" ")[0]]
                if rp.get("sub") in subs or rp.get("sub") in (None, "?"):
                    print("rejected: entry %d (%s) %s %s" % (e["i"], e["desc"], names, (e.get("diff") or "")[:400]))
                    bad += 1
        if bad:
            print("VIOLATION property=%s replay=%s" % (pid, path))
            return 1
        print("replay accepted")
        return 0
    finally:
        shutil.rmtree(work, ignore_errors=True)
