"""C02 - snapshot and restore reproduce the state exactly, at any point of any history."""
from checks import fsmfam

PREDS = {"results-agree", "state-agree", "queries-agree"}
DOC = {
    "state-agree": "at the cut, FSM.Snapshot().Persist -> FSM.Restore into a fresh FSM gives a dump equal to the original's for every table "
                   "(Raft indexes of the recomputed tables usage / kind-service-names / mesh-topology are masked: no client can read them "
                   "except through queries, which are compared separately); and again after every entry of the suffix applied to both",
    "queries-agree": "the read battery (about 250 reads over every endpoint family) returns the same (index, result) on the original and the restored server",
    "results-agree": "every command of the suffix returns the same result on both",
}


def run(tier):
    return fsmfam.run_fsm(
        "C02", tier, "c02", preds=PREDS, doc=DOC,
        mc={"quick": {"MaxLog": 2}, "thorough": {"MaxLog": 2}},
        params={"quick": [dict(n=12, len=80, mix="rotate", cuts=6)],
                "thorough": [dict(n=20, len=50, mix="rotate", cuts=0), dict(n=120, len=160, mix="rotate", cuts=10)]},
        assumptions=["TLC evaluates spec/ReplicasTrace.tla correctly",
                     "top-level order of list results that the code builds from Go maps is not compared"])


def replay(path):
    return fsmfam.replay_fsm("C02", path, "c02", PREDS)
