"""C13 - intention decisions follow precedence, independent of write order.

spec/Intentions.tla (+ IntentionsMC, IntentionsTrace), harness/cmd/h-intent.

  1. TLC checks the model exhaustively (all sets <= MaxN, VIEW hides the history): keys unique, no two
     matching intentions tie, the code's "first match in a precedence-sorted list" equals the property's
     decision function for EVERY admissible list order and both routes, permutations fold to the same set.
  2. TLC prints every write HISTORY (history mode: no VIEW, so every permutation of every set, plus
     update/delete histories); histories with the same multiset of writes form a group.
     Identity-addressed histories (legacy UUID API: create, update BY ID that may move source/destination between
     exact and wildcard, remove by ID) are generated for the legacy table and for IntentionMutation by LegacyID.
  3. h-intent applies every history to a fresh real state.Store in five representations and records
     Store.Intentions / IntentionMatch / IntentionMatchOne / IntentionDecision / AuthorizeIntentionTarget and
     Store.IntentionTopology (all universe services registered in the catalog; every target, both directions, both defaults).
  4. TLC (IntentionsTrace) computes the set each history denotes and judges every recorded answer and the
     order-independence of the answers.
"""
import collections
import json
import os
import shutil
import time

import vf

PID = "C13"
FRESH = "zz"

DOC = {
    "list-set": "Store.Intentions returns exactly the set denoted by the write history (Fold)",
    "list-order": "Store.Intentions never lists a less specific intention before a more specific one",
    "precedence-number": "the Precedence field of every returned intention is 9/8/6/5 by (dst exact?, src exact?)",
    "match-source": "IntentionMatch/IntentionMatchOne by source n: the local intentions returned are exactly those whose source is n or *, no duplicates, nothing outside the set",
    "match-source-no-peered": "a match by (local) source never returns an intention whose source is a peered service",
    "match-destination": "IntentionMatch/IntentionMatchOne by destination d = intentions whose destination is d or * (peered sources included)",
    "match-order": "match results are in precedence order",
    "decision": "IntentionDecision (both routes, both defaults, AllowPermissions on/off) = action of the single most "
                "specific matching intention, else the default; HasPermissions/HasExact/DefaultAllow as the spec says",
    "topology": "Store.IntentionTopology(target, upstreams|downstreams, default) = the registered services (target excluded) whose pair with the "
                "target is decided 'may connect' by the single most specific matching intention (allow, or L7 permissions), else by the default",
    "authorize": "connect.AuthorizeIntentionTarget: match = wildcard-aware name+peer match, auth = action is allow",
    "write-accepted": "every write the representation can hold is accepted by the store; an identity-addressed write (create / update by ID / "
                      "remove by ID) is accepted exactly when the spec accepts it (unknown identity or key taken = refused, nothing changes)",
    "order-independent": "all histories of a group that denote the same set give byte-identical answers (list orders included)",
}

GEN = {
    "quick": [
        dict(name="edit2", Names=["a", "b"], MaxN=2, MaxOps=2, Mode="edit"),
        dict(name="perm3", Names=["a"], MaxN=3, MaxOps=3, Mode="perm"),
        dict(name="id2", Names=["a", "b"], MaxN=2, MaxOps=2, Mode="edit", Reps=["legacy-id", "ce-legacyid"]),
    ],
    "thorough": [
        dict(name="id2", Names=["a", "b"], MaxN=2, MaxOps=2, Mode="edit", Reps=["legacy-id", "ce-legacyid"]),
        dict(name="id3", Names=["a"], MaxN=2, MaxOps=3, Mode="edit", Reps=["legacy-id", "ce-legacyid"]),
        dict(name="edit2", Names=["a", "b"], MaxN=2, MaxOps=2, Mode="edit"),
        dict(name="edit3", Names=["a"], MaxN=3, MaxOps=3, Mode="edit"),
        dict(name="perm3", Names=["a", "b"], MaxN=3, MaxOps=3, Mode="perm"),
        dict(name="perm4", Names=["a"], MaxN=4, MaxOps=4, Mode="perm"),
    ],
}
MC_MAXN = {"quick": 3, "thorough": 4}
RANDOM = {"quick": 150, "thorough": 1500}
CHUNK = 1500


def tset(xs):
    return "{" + ", ".join('"%s"' % x for x in xs) + "}"


def cfg_text(base, **kw):
    s = open(os.path.join(vf.SPEC, base)).read()
    out = []
    for line in s.splitlines():
        k = line.strip().split(" ")[0]
        if k in kw and "=" in line:
            v = kw[k]
            line = "  %s = %s" % (k, tset(v) if isinstance(v, list) else ('"%s"' % v if isinstance(v, str) else v))
        out.append(line)
    return "\n".join(out) + "\n"


def group_histories(behs):
    """behs: [{rep, hist}] printed by TLC -> groups of histories with the same multiset of writes"""
    groups = collections.OrderedDict()
    for b in behs:
        key = (b["rep"], tuple(sorted(json.dumps(o, sort_keys=True) for o in b["hist"])))
        groups.setdefault(key, {"rep": b["rep"], "hists": []})["hists"].append(b["hist"])
    return list(groups.values())


def harness_input(names, groups):
    qn = list(names) + [FRESH]
    callers = [[n, p] for p in ("", "p") for n in qn] + [[names[0], "otherpeer"]]
    return {"names": qn, "callers": callers, "groups": groups}


def par(jobs, n=2):
    """run thunks, at most n at a time (never more than two TLC JVMs per check); results in order"""
    import concurrent.futures
    with concurrent.futures.ThreadPoolExecutor(max_workers=n) as ex:
        futs = [ex.submit(j) for j in jobs]
        return [f.result() for f in futs]


def validate_rows(rows, work):
    """rows: ndjson lines; validated by TLC in chunks, two JVMs at a time -> [(global line, names)]"""
    jobs = []
    for c in range(0, len(rows), CHUNK):
        part = rows[c:c + CHUNK]
        p = os.path.join(work, "chunk-%d.ndjson" % c)
        with open(p, "w") as f:
            f.write("\n".join(part) + "\n")
        jobs.append(lambda p=p, c=c, n=len(part): (c, vf.tlc_validate("IntentionsTrace", "IntentionsTrace.cfg", p, nevents=n, timeout=3000, heap="8g")))
    rejects = []
    for c, r in par(jobs):
        for line, names in r.rejects:
            rejects.append((c + line, names))
    return rejects


def stats_of(rows, st):
    for raw in rows:
        e = json.loads(raw)
        st["groups"] += 1
        st["histories"] += len(e["runs"])
        if len(e["runs"]) > 1:
            st["groups_with_permutations"] += 1
        for run in e["runs"]:
            if "obs" not in run:
                continue
            o = run["obs"]
            st["distinct_observations"] += 1
            st["answers_judged"] += len(o["dec"]) * 2 + len(o["auth"]) + len(o["msrc"]) + len(o["mdst"]) + 1
            st["answers_judged"] += len(o.get("topo", []))
            for d in o["dec"]:
                st["bits"][d[5]] += 1
                st["bits"][d[6]] += 1
                if d[4] == "deny" and d[5][1] == "1":
                    st["l7_default_deny_pairs"] += 1
            # topology answers under default deny for a target that has an L7 intention but no plain allow
            l7t = {(i[0] if i[3] == "l7" else None) for i in o["list"]} | {(i[2] if i[3] == "l7" else None) for i in o["list"]}
            for t in o.get("topo", []):
                st["topology_answers"] += 1
                if t[3]:
                    st["topology_nonempty"] += 1
                if t[2] == "deny" and t[3] and t[0] in l7t:
                    st["topology_default_deny_nonempty_with_l7_target"] += 1
            st["list_len"][len(o["list"])] += 1


def run(tier):
    t0 = time.time()
    seed = vf.seed()
    binary = vf.build("h-intent")
    work = vf.new_scratch("verif-c13-")
    verdict = vf.Verdict(PID)
    try:
        jobs = [lambda: vf.tlc_mc("IntentionsMC", "mc.cfg", files={"mc.cfg": cfg_text("Intentions_mc.cfg", MaxN=MC_MAXN[tier])},
                                  timeout=3000, coverage=(tier == "thorough"), workers=min(8, vf.NCPU))]
        for g in GEN[tier]:
            jobs.append(lambda g=g: vf.tlc_gen("IntentionsMC", "gen.cfg", timeout=3000, heap="8g", files={"gen.cfg": cfg_text(
                "Intentions_gen.cfg", Names=g["Names"], MaxN=g["MaxN"], MaxOps=g["MaxOps"], Mode=g["Mode"],
                Reps=g.get("Reps", ["ce-entry", "ce-upsert", "legacy"]))}))
        res = par(jobs)
        mc = res[0]
        if tier == "thorough":
            vac = [n for n in mc.coverage_zero if n.startswith("Inv") or n in ("DoUpsert", "DoDelete")]
            if vac:
                raise vf.Infra("vacuous model check: never evaluated %s" % vac)
        gens = []
        traces = []
        for g, r in zip(GEN[tier], res[1:]):
            groups = group_histories(r.traces)
            inp = os.path.join(work, "in-%s.json" % g["name"])
            with open(inp, "w") as f:
                json.dump(harness_input(g["Names"], groups), f)
            tp = os.path.join(work, "gen-%s.ndjson" % g["name"])
            p = vf.run_harness(binary, ["replay", "-in", inp, "-out", tp])
            if p.returncode != 0:
                raise vf.Infra("h-intent replay failed: %s" % p.stderr[-2000:])
            meta = json.loads(p.stdout)
            if meta["behaviours"] != len(r.traces):
                raise vf.Infra("replayed %d of %d histories" % (meta["behaviours"], len(r.traces)))
            gens.append({"profile": g, "histories": len(r.traces), "groups": len(groups), "tlc_states": r.distinct})
            traces.append(("gen:" + g["name"], tp))
        tp = os.path.join(work, "rnd.ndjson")
        p = vf.run_harness(binary, ["random", "-seed", str(seed), "-n", str(RANDOM[tier]), "-out", tp])
        if p.returncode != 0:
            raise vf.Infra("h-intent random failed: %s" % p.stderr[-2000:])
        traces.append(("random", tp))

        st = {"groups": 0, "histories": 0, "groups_with_permutations": 0, "distinct_observations": 0, "answers_judged": 0,
              "l7_default_deny_pairs": 0, "topology_answers": 0, "topology_nonempty": 0, "topology_default_deny_nonempty_with_l7_target": 0,
              "bits": collections.Counter(), "list_len": collections.Counter()}
        samples = []
        pred_hits = collections.Counter()
        rows, src = [], []
        for name, tp in traces:
            part = open(tp).read().splitlines()
            rows += part
            src += [name] * len(part)
            os.remove(tp)
        rejects = validate_rows(rows, work)
        stats_of(rows, st)
        rejected_lines = {l for l, _ in rejects}
        for k, raw in enumerate(rows):
            if len(samples) >= 3:
                break
            if (k + 1) in rejected_lines or (samples and src[k] == samples[-1]["source"]) or k % 7 != 5:
                continue
            e = json.loads(raw)
            o = e["runs"][0]["obs"]
            samples.append({"source": src[k], "rep": e["rep"], "history": e["runs"][0]["hist"], "orders_in_group": len(e["runs"]),
                            "impl_list": o["list"], "impl_decisions_sample": o["dec"][:4], "accepted_by_tlc": True})
        for line, names in rejects:
            e = json.loads(rows[line - 1])
            for nm in names:
                pred_hits[nm] += 1
                verdict.add("%s:%s:%s" % (PID, nm, e["rep"]),
                            "predicate %s rejected by TLC at %s group %d (rep %s): first history %s" % (
                                nm, src[line - 1], line, e["rep"], json.dumps(e["runs"][0]["hist"])[:300]),
                            {"kind": "intent-group", "rep": e["rep"], "hists": [r_["hist"] for r_ in e["runs"]], "predicate": nm})
        # vacuity of the binding: the interesting classes must have been seen
        bits = st["bits"]
        need = {"allowed by an intention": any(b[0] == "1" and b[3] == "0" for b in bits),
                "denied by an intention under default allow": any(b[0] == "0" and b[3] == "1" for b in bits),
                "L7 on top": any(b[1] == "1" for b in bits), "exact/exact on top": any(b[2] == "1" for b in bits),
                "groups with several orders": st["groups_with_permutations"] > 0,
                "pair decided by an L7 intention under default deny": st["l7_default_deny_pairs"] > 0,
                "non-empty topology under default deny for a target with an L7 intention": st["topology_default_deny_nonempty_with_l7_target"] > 0,
                "lists with >= 3 entries": any(k >= 3 for k in st["list_len"])}
        missing = [k for k, v in need.items() if not v]
        if missing:
            raise vf.Infra("vacuous binding, never observed: %s" % missing)
        n_new = verdict.finish()
        coverage = {
            "states": mc.distinct, "transitions": mc.generated,
            "traces_validated_against_impl": st["histories"],
            "samples": samples,
            "evaluations": st["answers_judged"],
            "distinct_nontrivial": st["groups_with_permutations"],
            "rule": "distinct_nontrivial = groups (representation, multiset of writes) replayed in MORE THAN ONE order, i.e. where "
                    "order-independence is actually exercised; evaluations = recorded API answers judged by TLC in distinct observations",
            "model_check": {"MaxN": MC_MAXN[tier], "distinct_sets_x_reps": mc.distinct, "invariants": ["InvKeys", "InvNoTie", "InvFold", "InvFirstMatch", "InvPermFold", "InvDstFirst"],
                            "never_evaluated": mc.coverage_zero[:20]},
            "pairs_decided_by_an_L7_intention_under_default_deny": st["l7_default_deny_pairs"],
            "topology_answers_judged": st["topology_answers"], "topology_answers_nonempty": st["topology_nonempty"],
            "topology_default_deny_nonempty_with_l7_target": st["topology_default_deny_nonempty_with_l7_target"],
            "generation": gens, "random_groups": RANDOM[tier], "groups": st["groups"], "distinct_observations": st["distinct_observations"],
            "decision_summary_histogram(Allowed,HasPermissions,HasExact,DefaultAllow)": dict(bits),
            "list_length_histogram": {str(k): v for k, v in st["list_len"].items()},
            "predicates": sorted(DOC), "predicate_doc": DOC,
            "rejected_by_predicate": dict(pred_hits), "known_findings_matched": verdict.known_hit,
            "exhaustive": False,
        }
        assumptions = ["TLC evaluates spec/IntentionsTrace.tla correctly",
                       "h-intent copies fields only (src, peer, dst, action/has-permissions, precedence; decision summary flags)",
                       "community edition: one namespace and partition (enterprise tenancy levels 7/4/3/2/1 of the precedence table are not modelled)",
                       "service names are lower-case (the legacy table indexes names case-insensitively)",
                       "sameness-group sources are enterprise-only and not modelled"]
        vf.write_evidence(PID, tier, "model_checking", coverage, assumptions, time.time() - t0, n_new)
        return 1 if n_new else 0
    finally:
        shutil.rmtree(work, ignore_errors=True)


def _run_group(binary, work, rep, hists, corrupt=None):
    names = sorted({o["ixn"][k] for h in hists for o in h for k in ("src", "dst")} - {"*"}) or ["a"]
    inp = os.path.join(work, "in.json")
    json.dump(harness_input(names, [{"rep": rep, "hists": hists}]), open(inp, "w"))
    tp = os.path.join(work, "t.ndjson")
    p = vf.run_harness(binary, ["replay", "-in", inp, "-out", tp])
    if p.returncode != 0:
        raise vf.Infra(p.stderr[-2000:])
    if corrupt:
        e = json.loads(open(tp).read())
        corrupt(e)
        open(tp, "w").write(json.dumps(e) + "\n")
    return vf.tlc_validate("IntentionsTrace", "IntentionsTrace.cfg", tp, nevents=1)


def replay(path):
    rp = json.load(open(path))["replay"]
    binary = vf.build("h-intent")
    work = vf.new_scratch("verif-replay-")
    try:
        r = _run_group(binary, work, rp["rep"], rp["hists"])
        if r.rejects:
            for line, names in r.rejects:
                print("group rejected by TLC: %s" % names)
            print("VIOLATION property=%s replay=%s" % (PID, path))
            return 1
        print("replay accepted: %d histories" % len(rp["hists"]))
        return 0
    finally:
        shutil.rmtree(work, ignore_errors=True)


def selftest():
    """binding demonstration: corrupt one recorded field of a good trace -> TLC must reject"""
    binary = vf.build("h-intent")
    work = vf.new_scratch("verif-self-")
    i1 = {"src": "a", "peer": "", "dst": "*", "act": "allow"}
    i2 = {"src": "*", "peer": "", "dst": "a", "act": "deny"}
    hists = [[{"op": "upsert", "ixn": i1}, {"op": "upsert", "ixn": i2}], [{"op": "upsert", "ixn": i2}, {"op": "upsert", "ixn": i1}]]
    try:
        ok = _run_group(binary, work, "ce-entry", hists)

        def flip(e):
            d = e["runs"][0]["obs"]["dec"][0]
            d[5] = ("1" if d[5][0] == "0" else "0") + d[5][1:]

        def swap(e):
            e["runs"][0]["obs"]["list"].reverse()

        def topo(e):
            t = e["runs"][0]["obs"]["topo"]
            k = next(i for i, x in enumerate(t) if x[3])
            t[k][3] = t[k][3][1:]

        bad3 = _run_group(binary, work, "ce-entry", hists, topo)
        bad1 = _run_group(binary, work, "ce-entry", hists, flip)
        bad2 = _run_group(binary, work, "ce-entry", hists, swap)
        print("selftest: good=%s flipped-decision=%s reversed-list=%s dropped-topology-name=%s" % (ok.rejects, bad1.rejects, bad2.rejects, bad3.rejects))
        good = (not ok.rejects) and any("topology" in n for _, n in bad3.rejects) and any("decision" in n for _, n in bad1.rejects) and any("list-order" in n for _, n in bad2.rejects)
        return 0 if good else 2
    finally:
        shutil.rmtree(work, ignore_errors=True)
