"""Shared driver for the properties decided with spec/Store.tla (C03, C04, C05, ...)."""
import json
import os
import shutil
import time

import vf


def cmd_kind(c):
    if c["t"] == "txn":
        return "txn[" + ",".join(sorted({o["fam"] + "." + o["verb"] for o in c["ops"]})) + "]"
    return c["t"] + ("." + c["op"] if "op" in c else "")


def history_of(rows, line):
    """commands of the history that contains 1-based trace line `line`, up to that line"""
    lo = line - 1
    while "pre" not in rows[lo]:
        lo -= 1
    return [r["cmd"] for r in rows[lo:line]]


def mc_cfg(profile, depth, props=None):
    s = open(os.path.join(vf.SPEC, "StoreMC_%s.cfg" % profile)).read()
    return s.replace("MaxDepth = 3", "MaxDepth = %d" % depth)


def gen_cfg(profile, depth):
    s = open(os.path.join(vf.SPEC, "StoreGen_%s.cfg" % profile)).read()
    return s.replace("MaxDepth = 3", "MaxDepth = %d" % depth)


def validate(trace_path, nevents):
    return vf.tlc_validate("StoreTrace", "StoreTrace.cfg", trace_path, nevents=nevents, timeout=3000, heap="12g")


EXTRA_PREDS = {"delay-enforced", "delay-state", "ttl-not-early"}


def run_store(pid, tier, *, profiles, preds, res_filter, mc_depth, gen_depth, rnd, level_text, assumptions, pred_doc, rpc=None):
    """profiles: list of StoreMC profiles ; preds: predicate names of StoreTrace that belong to the
    property ; res_filter(cmd) -> bool says for which commands the generic "res" predicate counts ;
    rnd: list of (random profile, histories, length)."""
    t0 = time.time()
    seed = vf.seed()
    binary = vf.build("h-store")
    rpc_binary = vf.build("h-rpc") if rpc else None
    work = vf.new_scratch("verif-%s-" % pid)
    verdict = vf.Verdict(pid)
    cov = {"mc": [], "gen": [], "random": []}
    states = transitions = 0
    n_beh = n_events = 0
    samples = []
    pred_hits = {}
    extra_hits = {}
    n_delay_steps = 0
    nontrivial = set()
    try:
        for prof in profiles:
            r = vf.tlc_mc("StoreMC", "mc.cfg", files={"mc.cfg": mc_cfg(prof, mc_depth[tier][prof])}, timeout=2400, heap="16g",
                          workers=min(12, vf.NCPU), coverage=False)  # TLC's -coverage makes this module 100x slower (recursive operators)
            states += r.distinct
            transitions += r.generated
            cov["mc"].append({"profile": prof, "depth": mc_depth[tier][prof], "distinct": r.distinct, "generated": r.generated,
                              "actions_never_taken": r.coverage_zero[:20]})
        traces = []
        for prof in profiles:
            g = vf.tlc_gen("StoreMC", "gen.cfg", files={"gen.cfg": gen_cfg(prof, gen_depth[tier][prof])}, timeout=2400, heap="12g")
            behs = vf.dedup_behaviours(g.traces)
            cov["gen"].append({"profile": prof, "depth": gen_depth[tier][prof], "transitions": len(g.traces), "behaviours": len(behs)})
            bf = os.path.join(work, "beh-%s.json" % prof)
            with open(bf, "w") as f:
                json.dump(behs, f)
            tp = os.path.join(work, "gen-%s.ndjson" % prof)
            p = vf.run_harness(binary, ["replay", "-in", bf, "-out", tp])
            if p.returncode != 0:
                raise vf.Infra("h-store replay failed: %s" % p.stderr[-2000:])
            traces.append(("gen:" + prof, tp, json.loads(p.stdout)))
        for i, (prof, n, length) in enumerate(rnd[tier]):
            tp = os.path.join(work, "rnd-%s-%d.ndjson" % (prof, i))
            p = vf.run_harness(binary, ["random", "-seed", str(seed + i * 7919), "-n", str(n), "-len", str(length), "-profile", prof, "-out", tp])
            if p.returncode != 0:
                raise vf.Infra("h-store random failed: %s" % p.stderr[-2000:])
            traces.append(("random:" + prof, tp, json.loads(p.stdout)))
            cov["random"].append({"profile": prof, "histories": n, "length": length, "seed": seed + i * 7919})
        # endpoint level: the same abstract commands through KVS.Apply / Session.Apply / Txn.Apply / Catalog.* of a
        # real single-node server (real raft, real leader loop, real TTL expiry), reads through KVS.Get/List/ListKeys
        for i, (prof, n, length) in enumerate((rpc or {}).get(tier, [])):
            tp = os.path.join(work, "rpc-%s-%d.ndjson" % (prof, i))
            p = vf.run_harness(rpc_binary, ["-seed", str(seed + i * 104729), "-n", str(n), "-len", str(length), "-profile", prof, "-out", tp], timeout=3600)
            if p.returncode != 0:
                raise vf.Infra("h-rpc failed: %s" % p.stderr[-2000:])
            meta = json.loads(p.stdout)
            traces.append(("rpc:" + prof, tp, meta))
            cov.setdefault("rpc", []).append({"profile": prof, "servers": n, "length": length, "seed": seed + i * 104729,
                                              "events": meta["events"], "skipped_ambiguous_index": meta.get("skipped_ambiguous", 0)})
        for name, tp, meta in traces:
            r = validate(tp, meta["events"])
            n_beh += meta["behaviours"]
            n_events += meta["events"]
            rows = vf.read_ndjson(tp)
            n_delay_steps += sum(1 for e in rows if e["post"].get("delayed"))
            if len(samples) < 4:
                k = min(len(rows) - 1, 7)
                samples.append({"source": name, "cmd": rows[k]["cmd"], "impl_result": rows[k]["res"], "accepted_by_tlc": True})
            for line, names in r.rejects:
                cmd = rows[line - 1]["cmd"]
                for nm in names:
                    if nm == "res" and not res_filter(cmd):
                        continue
                    if nm != "res" and nm not in preds:
                        if nm in EXTRA_PREDS:
                            extra_hits[nm] = extra_hits.get(nm, 0) + 1
                        continue
                    pred_hits[nm] = pred_hits.get(nm, 0) + 1
                    sig = "%s:%s:%s" % (pid, nm, cmd_kind(cmd))
                    verdict.add(sig, "predicate %s rejected by TLC at %s line %d: cmd=%s impl_res=%s" % (
                        nm, name, line, json.dumps(cmd)[:300], json.dumps(rows[line - 1]["res"])[:200]),
                        {"kind": "store-history", "history": history_of(rows, line), "predicate": nm})
            # distinct non-trivial = distinct (command kind, result class) pairs exercised
            if rows:
                for e in rows:
                    nontrivial.add(cmd_kind(e["cmd"]) + "/" + json.dumps(e["res"].get("v", e["res"].get("ok", e["res"]["t"]))))
        n_new = verdict.finish()
        coverage = {
            "states": states, "transitions": transitions,
            "traces_validated_against_impl": n_beh,
            "impl_steps_validated": n_events,
            "samples": samples,
            "evaluations": n_events,
            "distinct_nontrivial": len(nontrivial),
            "rule": "every step of every TLC-generated behaviour (one per transition of the bounded model, prefix-deduplicated) "
                    "and of seeded random histories is executed through fsm.FSM.Apply and judged by TLC (StoreTrace); "
                    "distinct_nontrivial counts distinct (command kind, result) pairs seen in histories that needed row inspection",
            "model_check": cov["mc"], "generation": cov["gen"], "random": cov["random"], "rpc_endpoint_level": cov.get("rpc", []),
            "predicates": sorted(preds), "predicate_doc": pred_doc,
            "rejected_steps_by_predicate": pred_hits,
            # behaviour the specification models beyond the listed properties (lock delay: Store!EndpointApply / DelayExpires;
            # session TTL lower bound: Store!TTLMayExpire):
            # conformance is evaluated on the same traces and reported here, it never produces a VIOLATION line
            "beyond_listed_properties": {"predicates": sorted(EXTRA_PREDS), "rejected_steps": extra_hits,
                                         "steps_with_open_lock_delay_window": n_delay_steps},
            "known_findings_matched": verdict.known_hit,
            "exhaustive": False,
        }
        vf.write_evidence(pid, tier, "model_checking", coverage, assumptions, time.time() - t0, n_new)
        return 1 if n_new else 0
    finally:
        shutil.rmtree(work, ignore_errors=True)


def replay_store(pid, path, preds, res_filter):
    rp = json.load(open(path))
    hist = rp["replay"]["history"]
    binary = vf.build("h-store")
    work = vf.new_scratch("verif-replay-")
    try:
        bf = os.path.join(work, "beh.json")
        json.dump([hist], open(bf, "w"))
        tp = os.path.join(work, "t.ndjson")
        p = vf.run_harness(binary, ["replay", "-in", bf, "-out", tp])
        if p.returncode != 0:
            raise vf.Infra(p.stderr[-2000:])
        r = validate(tp, len(hist))
        rows = vf.read_ndjson(tp)
        bad = 0
        for line, names in r.rejects:
            for nm in names:
                if (nm == "res" and res_filter(rows[line - 1]["cmd"])) or nm in preds:
                    print("step %d rejected: %s cmd=%s res=%s" % (line, nm, json.dumps(rows[line - 1]["cmd"]), json.dumps(rows[line - 1]["res"])))
                    bad += 1
        if bad:
            print("VIOLATION property=%s replay=%s" % (pid, path))
            return 1
        print("replay accepted: %d steps" % len(hist))
        return 0
    finally:
        shutil.rmtree(work, ignore_errors=True)
