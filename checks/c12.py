"""C12 - the Connect CA issues only authorized, verifiable identities (spec/CA.tla, CAMC.tla, CATrace.tla).

  E  TLC checks the issuing rule and the root-set machine exhaustively on the bounded model (CAMC, two profiles).
  R  every transition of the bounded model is replayed (prefix-deduplicated behaviours) against the REAL code by
     harness/cmd/h-ca: real PKCS#10 requests with hand-crafted SAN extensions -> connect.ParseCSR ->
     CAManager.AuthorizeAndSignCertificate (built-in provider, real state.Store, authorizers compiled from real
     policies); rotations through CAManager.UpdateConfiguration; raw replicated CA commands through
     fsm.ApplyConnectCAOperationFromRequest.  Plus seeded random histories over a wider universe.
  TV every recorded event is judged by TLC with spec/CATrace.tla; TLC is the only arbiter.
"""
import copy
import json
import os
import shutil
import time

import vf

PID = "C12"

# predicates of CATrace that belong to C12's statement
PREDS = {
    "must-refuse/uri-count", "must-refuse/email", "must-refuse/unparsable", "must-refuse/kind", "must-refuse/partition",
    "must-refuse/trust-domain", "must-refuse/datacenter", "must-refuse/scope", "must-issue",
    "leaf-single-uri", "leaf-identity", "leaf-trust-domain", "leaf-not-ca", "leaf-no-email", "leaf-chain",
    "SerialFresh", "SerialIncreasing", "serial-failed",
    "ExactlyOneActive", "RootSetAtomic", "RootSetAtomic/config-without-roots", "RootSetAtomic/roots-without-config",
    "rotate-state", "failed-rotate-keeps-roots", "reconfig-keeps-roots", "sign-keeps-roots",
    "signer-is-active", "probe-issued", "rotate-unraced-succeeds",
}
# conformance predicates outside C12's statement (honest result / exact index of conditional CA writes is C10's view);
# counted in the evidence, never a C12 verdict
INFO_PREDS = {"ca-res", "ca-state"}

DOC = {
    "must-refuse/<why>": "Decide(csr, authz) of CA.tla refuses for <why> (uri-count, email, unparsable, kind, partition, trust-domain, "
                         "datacenter, scope) but the real AuthorizeAndSignCertificate issued a leaf",
    "must-issue": "Decide says issue (exactly one supported identity of this trust domain and datacenter, write granted on exactly that "
                  "scope) but the real code refused",
    "leaf-single-uri": "the issued certificate carries exactly one URI SAN",
    "leaf-identity": "the identity parsed FROM THE CERTIFICATE with connect.ParseCertURI (kind, datacenter, name spelling, partition) "
                     "equals the identity that was authorized",
    "leaf-trust-domain": "the identity in the certificate is in the cluster's trust domain (host compared case-insensitively); for agent "
                         "CSRs from another trust domain this is the AgentCSRTrustDomainRewritten deviation: accepted, but rewritten",
    "leaf-not-ca": "IsCA is false", "leaf-no-email": "no e-mail SAN in the leaf",
    "leaf-chain": "crypto/x509 Verify(leaf, bundled intermediates) succeeds against the ACTIVE root of Store.CARoots and the leaf's "
                  "issuer key is the active root's key",
    "SerialFresh": "serial of the leaf (or result of IncrementProviderSerialNumber) was never seen before in this history "
                   "(earlier leaves, counter results, serials of all CA certificates in the store)",
    "SerialIncreasing": "and is larger than all of them",
    "ExactlyOneActive": "after the command the root set is empty (never initialised) or has exactly one active root",
    "RootSetAtomic": "after a CA command the root set is the old one or exactly the requested one; commands that name no roots leave them alone",
    "RootSetAtomic/config-without-roots": "the composite SetRootsAndConfig never stores its configuration without its roots",
    "RootSetAtomic/roots-without-config": "the composite SetRootsAndConfig never stores its roots without its configuration",
    "rotate-state": "a successful rotation to a fresh root keeps every old root (inactive) and adds exactly one new, active root; a "
                    "successful rotation to an operator-supplied root (same PrivateKey + RootCert, possibly a FORMER root still in the set: "
                    "rolling a rotation back) leaves the old ids plus the target, the target active and everything else inactive",
    "sign-keeps-roots": "signing never changes roots or configuration",
    "signer-is-active": "after sign / rotate / reconfig the root the CAManager signs with (its provider root) is the store's active root",
    "failed-rotate-keeps-roots": "a (re)configuration that reports an error - e.g. because a RacingRootWrite made its conditional write "
                                 "stale - leaves root set and configuration alone and keeps signing with the root it signed with before",
    "probe-issued": "right after every rotate / reconfig (succeeded or failed) the manager issues a probe leaf for a plain service identity; "
                    "that leaf is judged with all leaf predicates against the store's ACTIVE root",
    "rotate-unraced-succeeds": "a rotation that nobody raced succeeds",
}

ASSUMPTIONS = [
    "TLC evaluates spec/CATrace.tla correctly; crypto/x509 is the projection of 'verifiable'",
    "harness/internal/cah classifies parsed identities by inverting its own concretisation tables (no decision logic)",
    "the store-backed caServerDelegate in agent/consul/verif_export_ca.go applies CA requests like raftApply + FSM do "
    "(msgpack round trip, fsm.ApplyConnectCAOperationFromRequest, FSM errors become the error result)",
    "primary datacenter, built-in consul provider, CE build (no partitions/namespaces), rate limiting disabled",
    "named deviation AgentCSRTrustDomainRewritten: agent CSRs from any trust domain are accepted and must be rewritten to the cluster's",
    "server identities with acl:write and agent identities with a non-default partition: statement silent, either outcome accepted",
    "a CA request lists roots; the root SET it asks for is keyed by id, and when an id is listed twice (stale inactive copy + new "
    "active entry, as the leader does when rolling a rotation back) the request asks for that root to be active (CATrace RootSetOf)",
    "operator-supplied roots are self-signed CA certificates made by the harness like ConsulProvider.generateCA makes its own "
    "(serials 1..3, below the CA's own counter)",
    "RacingRootWrite fault: a CAOpSetRoots re-writing the current roots at the current index is committed (through the delegate's "
    "BeforeApply hook) just before the manager's own CAOpSetRootsAndConfig / CAOpSetRoots gets its index, like Server.pruneCARoots could",
    "agent CSRs whose URI authority is [host], host. or an IPv6 literal may be rejected by crypto/x509 at CSR parse: either outcome accepted",
]

DEPTH = {
    "quick": {"mc": {"issue": 3, "roots": 3}, "gen": {"issue": 3, "roots": 3}, "universe": "full"},
    "thorough": {"mc": {"issue": 5, "roots": 7}, "gen": {"issue": 4, "roots": 4}, "universe": "wide"},
}
RANDOM = {
    "quick": [("issue", 12, 120), ("roots", 20, 120)],
    "thorough": [("issue", 150, 200), ("roots", 300, 250)],
}


def cfg_text(kind, profile, depth, universe):
    s = open(os.path.join(vf.SPEC, "CA_%s_%s.cfg" % (kind, profile))).read()
    s = s.replace("MaxDepth = 3", "MaxDepth = %d" % depth)
    return s.replace('Universe = "full"', 'Universe = "%s"' % universe)


def cmd_kind(c):
    if c["t"] == "sign":
        u = c["csr"]["uris"]
        return "sign[%s]" % (u[0]["kind"] if len(u) == 1 else "uris=%d" % len(u))
    if c["t"] in ("rotate", "reconfig") and c.get("race"):
        return c["t"] + "[race]"
    return c["t"]


def history_of(rows, i):
    """outer commands of the behaviour of event i (0-based), up to the outer command that event i is (part of)"""
    def key(r):
        return (r.get("src"), r.get("beh"))
    b = key(rows[i])
    lo = i
    while lo > 0 and key(rows[lo - 1]) == b:
        lo -= 1
    hi = i
    while "via" in rows[hi]["cmd"] and hi + 1 < len(rows) and key(rows[hi + 1]) == b:
        hi += 1
    return [r["cmd"] for r in rows[lo:hi + 1] if "via" not in r["cmd"]]


def validate(trace_path, nevents):
    return vf.tlc_validate("CATrace", "CATrace.cfg", trace_path, nevents=nevents, timeout=3000, heap="12g")


def run_harness(binary, args):
    p = vf.run_harness(binary, args)
    if p.returncode != 0:
        raise vf.Infra("h-ca %s failed: %s" % (args[0], p.stderr[-2000:]))
    return json.loads(p.stdout)


def nontrivial_key(e):
    c, r = e["cmd"], e["res"]
    if c["t"] == "sign":
        u = c["csr"]["uris"]
        sh = tuple((s["kind"], s["td"], s["dc"], s["enc"], s["ap"]) for s in u)
        return ("sign", sh, c["csr"]["emails"] > 0, c["csr"]["dns"] > 0, c["csr"]["ips"] > 0,
                tuple(sorted((a["res"], a["var"]) for a in c["authz"])), r["t"], r.get("cls", ""))
    if c["t"] in ("set-roots", "set-roots-and-config", "set-config"):
        pre = e["pre"]
        rs = c.get("roots", [])
        return (c["t"], c.get("cas", -1) == pre["ridx"], c.get("ccas", -1) == pre["cfg"]["mi"], c.get("ccas", -1) == 0,
                sum(1 for x in rs if x["active"]), len(rs), r.get("ok"), "via" in c)
    tgt = r.get("target", "")
    rel = "" if not tgt else ("active" if tgt == e["pre"]["active"] else "former" if any(x["id"] == tgt for x in e["pre"]["roots"]) else "new")
    return (c["t"], r["t"], r.get("raced"), c.get("via"), rel)


def judge(tp, rows, verdict, stats):
    r = validate(tp, len(rows))
    for e in rows:
        c, res = e["cmd"], e["res"]
        stats["nontrivial"].add(json.dumps(nontrivial_key(e)))
        if c["t"] == "sign":
            stats["issued" if res["t"] == "issued" else "refused"] += 1
        elif c["t"] == "rotate":
            if res.get("raced"):
                stats["raced_rotations"] += 1
            elif res["t"] == "ok":
                stats["rotations"] += 1
                tgt = res.get("target", "")
                if tgt and tgt != e["pre"]["active"] and any(x["id"] == tgt for x in e["pre"]["roots"]):
                    stats["rollback_rotations"] += 1   # back to a FORMER root that is still in the set
        elif c["t"] in ("set-roots", "set-roots-and-config"):
            if "via" in c:
                stats["manager_root_ops"] += 1
            elif c["cas"] != e["pre"]["ridx"]:
                stats["stale_root_cas"] += 1
            elif res.get("ok") == "yes":
                stats["applied_root_sets"] += 1
    for line, names in r.rejects:
        e = rows[line - 1]
        for nm in names:
            if nm in INFO_PREDS:
                stats["info"][nm] = stats["info"].get(nm, 0) + 1
                continue
            if nm not in PREDS:
                raise vf.Infra("unknown predicate %r printed by CATrace" % nm)
            stats["hits"][nm] = stats["hits"].get(nm, 0) + 1
            sig = "%s:%s:%s" % (PID, nm, cmd_kind(e["cmd"]))
            verdict.add(sig, "predicate %s rejected by TLC at %s event %d: cmd=%s impl_res=%s" % (
                nm, e.get("src", "trace"), line, json.dumps(e["cmd"])[:400], json.dumps(e["res"])[:300]),
                {"kind": "ca-history", "profile": e.get("profile", "issue"), "history": history_of(rows, line - 1), "predicate": nm})
    return r


def run(tier):
    t0 = time.time()
    seed = vf.seed()
    binary = vf.build("h-ca")
    work = vf.new_scratch("verif-%s-" % PID)
    verdict = vf.Verdict(PID)
    d = DEPTH[tier]
    cov = {"mc": [], "gen": [], "random": []}
    stats = {"nontrivial": set(), "issued": 0, "refused": 0, "rotations": 0, "stale_root_cas": 0, "applied_root_sets": 0,
             "manager_root_ops": 0, "raced_rotations": 0, "rollback_rotations": 0, "hits": {}, "info": {}}
    states = transitions = n_beh = 0
    samples = []
    try:
        traces = []
        for prof in ("issue", "roots"):
            # exhaustive check of the deeper bound (the generation run below re-checks the same invariants and
            # properties at the generation depth: CA_gen_*.cfg lists them next to EmitProp)
            if d["mc"][prof] > d["gen"][prof]:
                r = vf.tlc_mc("CAMC", "mc.cfg", files={"mc.cfg": cfg_text("mc", prof, d["mc"][prof], d["universe"])}, timeout=1500,
                              heap="8g", workers=min(8, vf.NCPU), coverage=(tier == "thorough"))
                states += r.distinct
                transitions += r.generated
                zero = [z for z in r.coverage_zero if z not in ("EmitProp", "Emit")]
                cov["mc"].append({"profile": prof, "depth": d["mc"][prof], "universe": d["universe"], "distinct": r.distinct,
                                  "generated": r.generated, "coverage_zero": zero[:20]})
                if tier == "thorough" and zero:
                    raise vf.Infra("vacuous model run for %s: expressions never evaluated: %s" % (prof, zero))
            g = vf.tlc_gen("CAMC", "gen.cfg", files={"gen.cfg": cfg_text("gen", prof, d["gen"][prof], d["universe"])}, timeout=1500, heap="8g")
            states += g.distinct
            transitions += g.generated
            behs = vf.dedup_behaviours(g.traces)
            cov["gen"].append({"profile": prof, "depth": d["gen"][prof], "universe": d["universe"], "distinct": g.distinct,
                               "generated": g.generated, "transitions": len(g.traces), "behaviours": len(behs),
                               "checked": "InvOneActive PropIssue PropSerial PropRootSetAtomic"})
            bf = os.path.join(work, "beh-%s.json" % prof)
            with open(bf, "w") as f:
                json.dump(behs, f)
            tp = os.path.join(work, "gen-%s.ndjson" % prof)
            meta = run_harness(binary, ["replay", "-profile", prof, "-initops", "25", "-in", bf, "-out", tp])
            traces.append(("gen:" + prof, prof, tp, meta))
        for i, (prof, n, length) in enumerate(RANDOM[tier]):
            tp = os.path.join(work, "rnd-%s.ndjson" % prof)
            s = seed + i * 7919
            meta = run_harness(binary, ["random", "-profile", prof, "-seed", str(s), "-n", str(n), "-len", str(length), "-out", tp])
            traces.append(("random:" + prof, prof, tp, meta))
            cov["random"].append({"profile": prof, "histories": n, "length": length, "seed": s, "events": meta["events"]})
        # one trace, one TLC run: events are judged independently (each carries its own pre-state)
        rows = []
        for name, prof, tp, meta in traces:
            n_beh += meta["behaviours"]
            for e in vf.read_ndjson(tp):
                e["src"] = name
                e["profile"] = prof
                rows.append(e)
        allp = os.path.join(work, "all.ndjson")
        vf.write_ndjson(allp, rows)
        judge(allp, rows, verdict, stats)
        for e in rows:
            if len(samples) < 6 and e["cmd"]["t"] in ("sign", "set-roots-and-config") and "via" not in e["cmd"] \
                    and (len(samples) % 2 == 0) == (e["res"]["t"] == "issued" or e["res"].get("ok") == "yes"):
                samples.append({"source": e["src"], "cmd": e["cmd"], "impl_result": e["res"]})
        n_new = verdict.finish()
        # vacuity: the antecedents of the judgements must have been exercised on the real code (a violation is reported first)
        for k in ("issued", "refused", "rotations", "raced_rotations", "rollback_rotations", "stale_root_cas", "applied_root_sets",
                  "manager_root_ops"):
            if stats[k] == 0 and not n_new:
                raise vf.Infra("vacuous run: no %s case was executed against the real code" % k)
        coverage = {
            "states": states, "transitions": transitions,
            "traces_validated_against_impl": n_beh, "impl_steps_validated": len(rows),
            "samples": samples, "evaluations": len(rows),
            "distinct_nontrivial": len(stats["nontrivial"]),
            "rule": "every transition of the bounded model (prefix-deduplicated behaviours) and seeded random histories are executed "
                    "against the real CAManager / FSM CA commands and every event is judged by TLC (CATrace); distinct_nontrivial counts "
                    "distinct (CSR shape classes x SAN kinds x granted scope kinds x outcome) and (CA command x CAS relation x root-set "
                    "validity x outcome) tuples actually executed",
            "model_check": cov["mc"], "generation": cov["gen"], "random": cov["random"],
            "impl_counts": {k: stats[k] for k in ("issued", "refused", "rotations", "raced_rotations", "rollback_rotations", "stale_root_cas",
                                                   "applied_root_sets", "manager_root_ops")},
            "predicates": sorted(PREDS), "predicate_doc": DOC,
            "rejected_steps_by_predicate": stats["hits"],
            "conformance_outside_C12_view": {"predicates": sorted(INFO_PREDS), "rejected_steps": stats["info"],
                                             "note": "honest result / exact index of conditional CA writes belongs to C10; a rejection "
                                                     "here is reported as model drift (exit 2), never as a C12 violation"},
            "known_findings_matched": verdict.known_hit,
            "exhaustive": False,
        }
        vf.write_evidence(PID, tier, "model_checking", coverage, ASSUMPTIONS, time.time() - t0, n_new)
        if n_new:
            return 1
        if stats["info"]:
            raise vf.Infra("model drift outside C12's view (conditional CA write result/index, see C10): %s" % stats["info"])
        return 0
    finally:
        shutil.rmtree(work, ignore_errors=True)


def _exec_history(binary, work, profile, hist, tag="t"):
    bf = os.path.join(work, tag + "-beh.json")
    json.dump([hist], open(bf, "w"))
    tp = os.path.join(work, tag + ".ndjson")
    meta = run_harness(binary, ["replay", "-profile", profile, "-in", bf, "-out", tp])
    return tp, meta


def replay(path):
    rp = json.load(open(path))
    body = rp["replay"]
    binary = vf.build("h-ca")
    work = vf.new_scratch("verif-replay-")
    try:
        tp, meta = _exec_history(binary, work, body["profile"], body["history"])
        r = validate(tp, meta["events"])
        rows = vf.read_ndjson(tp)
        bad = 0
        for line, names in r.rejects:
            for nm in names:
                if nm in PREDS:
                    e = rows[line - 1]
                    print("event %d rejected: %s cmd=%s res=%s" % (line, nm, json.dumps(e["cmd"]), json.dumps(e["res"])[:600]))
                    bad += 1
        if bad:
            print("VIOLATION property=%s replay=%s" % (PID, path))
            return 1
        print("replay accepted: %d commands, %d events" % (len(body["history"]), meta["events"]))
        return 0
    finally:
        shutil.rmtree(work, ignore_errors=True)


def selftest():
    """Binding demonstration: record a good trace from the real code, corrupt one recorded field at a time and show
    that TLC rejects exactly that; the uncorrupted trace must be accepted."""
    binary = vf.build("h-ca")
    work = vf.new_scratch("verif-selftest-")
    svc = {"kind": "service", "td": "own", "dc": "own", "name": "web", "enc": "plain", "ap": "none"}
    grant = [{"res": "service", "name": "web", "var": "exact"}]
    sign_ok = {"t": "sign", "csr": {"uris": [svc], "dns": 0, "ips": 0, "emails": 0}, "authz": grant}
    sign_no = {"t": "sign", "csr": {"uris": [svc], "dns": 0, "ips": 0, "emails": 0}, "authz": []}
    try:
        tp, meta = _exec_history(binary, work, "issue", [sign_ok, {"t": "rotate"}, sign_ok, sign_no])
        rows = vf.read_ndjson(tp)
        base = validate(tp, meta["events"])
        base_rej = [(ln, [n for n in names if n in PREDS]) for ln, names in base.rejects]
        base_rej = [x for x in base_rej if x[1]]
        if base_rej:
            print("selftest: uncorrupted trace rejected: %s" % base_rej)
            return 2
        outer = [i for i, e in enumerate(rows) if "via" not in e["cmd"]]
        i_ok, i_rot, i_ok2, i_no = outer
        comp = [i for i, e in enumerate(rows) if e["cmd"]["t"] == "set-roots-and-config"][-1]

        def mut_isca(rs): rs[i_ok]["res"]["cert"]["isca"] = True
        def mut_serial(rs): rs[i_ok2]["res"]["cert"]["serial"] = rs[i_ok]["res"]["cert"]["serial"]
        def mut_chain(rs): rs[i_ok2]["res"]["cert"]["verifies"] = False
        def mut_ident(rs): rs[i_ok]["res"]["cert"]["ids"][0]["name"] = "db"
        def mut_td(rs): rs[i_ok]["res"]["cert"]["ids"][0]["td"] = "foreign"
        def mut_issue(rs): rs[i_no]["res"] = copy.deepcopy(rs[i_ok2]["res"]); rs[i_no]["res"]["cert"]["serial"] += 1
        def mut_two_active(rs): rs[i_rot]["post"]["roots"] = [dict(x, active=True) for x in rs[i_rot]["post"]["roots"]]
        def mut_signer(rs): rs[i_rot]["post"]["signer"] = "not-the-active-root"
        def mut_probe(rs): rs[i_rot]["res"]["probe"]["cert"]["issuer_active"] = False
        def mut_partial(rs): rs[comp]["post"]["roots"] = rs[comp]["pre"]["roots"]; rs[comp]["post"]["ridx"] = rs[comp]["pre"]["ridx"]
        cases = [("isca", mut_isca, i_ok, "leaf-not-ca"), ("serial-reuse", mut_serial, i_ok2, "SerialFresh"),
                 ("chain", mut_chain, i_ok2, "leaf-chain"), ("identity", mut_ident, i_ok, "leaf-identity"),
                 ("trust-domain", mut_td, i_ok, "leaf-trust-domain"), ("issued-without-grant", mut_issue, i_no, "must-refuse/scope"),
                 ("two-active-roots", mut_two_active, i_rot, "ExactlyOneActive"),
                 ("signer-not-active", mut_signer, i_rot, "signer-is-active"), ("probe-chain", mut_probe, i_rot, "leaf-chain"),
                 ("config-without-roots", mut_partial, comp, "RootSetAtomic/config-without-roots")]
        failed = 0
        for tag, mut, idx, pred in cases:
            rs = copy.deepcopy(rows)
            mut(rs)
            p = os.path.join(work, "mut-%s.ndjson" % tag)
            vf.write_ndjson(p, rs)
            r = validate(p, len(rs))
            hit = any(ln == idx + 1 and pred in names for ln, names in r.rejects)
            print("selftest %-22s event %d -> %s %s" % (tag, idx + 1, "REJECTED" if hit else "NOT REJECTED", pred))
            failed += 0 if hit else 1
        os.makedirs(os.path.join(vf.VERIF, "evidence", "selftest"), exist_ok=True)
        json.dump({"property": PID, "cases": [c[0] for c in cases], "not_rejected": failed},
                  open(os.path.join(vf.VERIF, "evidence", "selftest", PID + ".json"), "w"), indent=1)
        return 0 if failed == 0 else 2
    finally:
        shutil.rmtree(work, ignore_errors=True)
