"""C04 - locks: one holder, only live sessions, released whenever the session ends."""
from checks import storefam

PREDS = {"HolderExists", "LinksLive", "QueriesLive", "SessionNodeLive", "EndsCascade", "sess-state", "KeysUnique", "kv-state",
         "txn-state"}
DOC = {
    "HolderExists": "every lock holder is a session that exists (judged on the implementation state after every step)",
    "LinksLive": "every session->check link belongs to an existing session and an existing check",
    "QueriesLive": "every session-bound prepared query belongs to an existing session",
    "SessionNodeLive": "every session's node exists",
    "EndsCascade": "a session that disappears in a step has, in that same step, all its keys released (behaviour release: "
                   "holder cleared, lock counter kept) or deleted, and no link or query left",
    "sess-state": "sessions / links / queries after the step equal Store!ApplyAt(pre_impl, cmd): every session-ending path "
                  "(destroy, node deregistration, rename, check deletion, critical check, session-type check, txn verbs) ends "
                  "exactly the sessions the specification says",
    "res": "lock / unlock / session commands report what the specification reports",
    "kv-state": "keys after the step (holder, lock counter) equal the specification",
}


def res_filter(cmd):
    return (cmd["t"] == "kv" and cmd["op"] in ("lock", "unlock")) or cmd["t"] == "sess"


def run(tier):
    return storefam.run_store(
        "C04", tier, profiles=["sess"], preds=PREDS, res_filter=res_filter,
        mc_depth={"quick": {"sess": 3}, "thorough": {"sess": 4}},
        gen_depth={"quick": {"sess": 3}, "thorough": {"sess": 3}},
        rnd={"quick": [("sess", 40, 200)], "thorough": [("sess", 400, 300), ("txn", 200, 200)]},
        level_text="", pred_doc=DOC,
        rpc={"quick": [("sess", 4, 80)], "thorough": [("sess", 25, 150)]},
        assumptions=["TLC 1.8 evaluates spec/StoreTrace.tla correctly", "projection copies fields only",
                     "TTL expiry reaches the state machine as a SessionDestroy command (session_ttl.go invalidateSession), "
                     "which is how it is modelled",
                     "session IDs are never re-used while live (the endpoint mints a fresh UUID)"])


def replay(path):
    return storefam.replay_store("C04", path, PREDS, res_filter)
