"""C14 - the proxy authorization policy enforces exactly the intention decision.

spec/RBAC.tla (+ RBACMC, RBACTrace) on top of spec/Intentions.tla, harness/cmd/h-xds, hook
<repo>/agent/xds/verif_export.go (build tag verif).

  1. TLC proves on the model, for every intention set <= MaxN, both defaults, TCP and HTTP, all abstract
     callers and requests:  Eval(Translate(I)) = Decision7(I)  where Translate transcribes rbac.go with the
     covered-source rule (AsCoded = FALSE).  With AsCoded = TRUE (rbac.go as it is) TLC is expected to find
     the precedence inversion, and OnlyInversion shows every disagreement has that one shape (thorough).
  2. TLC prints every set once; h-xds instantiates it in several naming universes, calls the REAL
     makeRBACRules / makeRBACNetworkFilter / makeRBACHTTPFilter and evaluates the returned Envoy proto with
     an independent interpreter for concrete callers (SPIFFE URI SANs, XFCC headers, near-misses).
  3. TLC (RBACTrace) judges allowed == Decision7 for the identity each concrete caller IS.
"""
import collections
import json
import os
import shutil
import time

import vf

PID = "C14"

UNIVERSES = {
    "plain": {"id": "plain", "meta": False, "names": {"a": "web", "b": "api", "d": "db"}},
    "meta-dot": {"id": "meta-dot", "meta": True, "names": {"a": "web.v1", "b": "webxv1", "d": "db"}},
    "meta-plus": {"id": "meta-plus", "meta": True, "names": {"a": "a+b", "b": "aab", "d": "db"}},
    "meta-alt": {"id": "meta-alt", "meta": True, "names": {"a": "a|b", "b": "a", "d": "db"}},
    "meta-paren": {"id": "meta-paren", "meta": True, "names": {"a": "(x)", "b": "x", "d": "db"}},
}

DOC = {
    "enforce": "for a concrete caller and every request: the Envoy RBAC proto returned by makeRBACRules allows it iff "
               "Decision7(I, identity of the caller, destination, default, protocol, request) = allow",
    "enforce@dst-over-src-precedence": "same predicate; the rejected case has the inversion shape (deciding intention '* -> exact dst', "
                                       "a matching 'exact src -> *' intention of lower precedence exists)",
    "enforce@regex-metachar-name": "same predicate; the naming universe contains service names with regex/URL-significant runes",
    "filter-*": "same predicates on the rules carried by makeRBACNetworkFilter / makeRBACHTTPFilter (only judged separately when their answers differ)",
    "translate-ok": "the translation returns without error or panic for a storable set",
    "storable": "the harness only submits sets that ServiceIntentionsConfigEntry.Validate accepts",
    "keys-unique": "the submitted intentions have unique (source, peer, destination)",
}

# generation runs (one TLC run each) and what is replayed from them:
#   (universes, protos, filter on the abstract set)
GEN = {
    "quick": [dict(name="src2", Profile="src", MaxN=2, WithPeerWild="FALSE", replays=[
        (["plain"], ["tcp", "http"], None),
        (["meta-dot"], ["tcp"], lambda ix: len(ix) == 2),
        (["meta-dot", "meta-plus", "meta-alt", "meta-paren"], ["tcp", "http"], lambda ix: len(ix) <= 1)])],
    "thorough": [
        dict(name="src3", Profile="src", MaxN=3, WithPeerWild="FALSE", replays=[(["plain"], ["tcp", "http"], None)]),
        dict(name="src2w", Profile="src", MaxN=2, WithPeerWild="TRUE", replays=[
            (["meta-dot"], ["tcp", "http"], None),
            (["meta-plus", "meta-alt", "meta-paren"], ["tcp"], lambda ix: len(ix) == 2 and any(i["src"] == "*" for i in ix)),
            (["meta-plus", "meta-alt", "meta-paren"], ["tcp", "http"], lambda ix: len(ix) <= 1)]),
        dict(name="perm1", Profile="perm", MaxN=1, WithPeerWild="FALSE", replays=[(["plain"], ["http"], None)]),
    ],
}
# exhaustive theorem checks (AsCoded = FALSE); cov = run with -coverage (vacuity)
MC = {
    "quick": [dict(Profile="src", MaxN=2, WithPeerWild="TRUE"), dict(Profile="perm", MaxN=1, WithPeerWild="FALSE")],
    "thorough": [dict(Profile="src", MaxN=4, WithPeerWild="FALSE"), dict(Profile="src", MaxN=3, WithPeerWild="TRUE"),
                 dict(Profile="perm", MaxN=1, WithPeerWild="FALSE"), dict(Profile="perm2", MaxN=2, WithPeerWild="FALSE"),
                 dict(Profile="src", MaxN=2, WithPeerWild="TRUE", cov=True)],
}
RANDOM = {"quick": 80, "thorough": 500}
CHUNK = 2500


def par(jobs, n=2):
    """run thunks, at most n at a time (never more than two TLC JVMs per check); results in order"""
    import concurrent.futures
    with concurrent.futures.ThreadPoolExecutor(max_workers=n) as ex:
        futs = [ex.submit(j) for j in jobs]
        return [f.result() for f in futs]


def cfg_text(base, **kw):
    s = open(os.path.join(vf.SPEC, base)).read()
    out = []
    for line in s.splitlines():
        k = line.strip().split(" ")[0]
        if k in kw and "=" in line:
            v = kw[k]
            line = "  %s = %s" % (k, '"%s"' % v if k == "Profile" else v)
        out.append(line)
    return "\n".join(out) + "\n"


def validate_rows(rows, work):
    """rows: ndjson lines; validated by TLC in chunks, two JVMs at a time -> [(global line, names)]"""
    jobs = []
    for c in range(0, len(rows), CHUNK):
        part = rows[c:c + CHUNK]
        p = os.path.join(work, "chunk-%d.ndjson" % c)
        with open(p, "w") as f:
            f.write("\n".join(part) + "\n")
        jobs.append(lambda p=p, c=c, n=len(part): (c, vf.tlc_validate("RBACTrace", "RBACTrace.cfg", p, nevents=n, timeout=3000, heap="8g")))
    rejects = []
    for c, r in par(jobs):
        for line, names in r.rejects:
            rejects.append((c + line, names))
    return rejects


def sig_of(name, ev):
    pre = ""
    if name.startswith("filter-"):
        pre, name = "filter-", name[len("filter-"):]
    if "@" in name:
        pred, kind = name.split("@", 1)
    else:
        pred, kind = name, ev.get("proto", "none")
    return "%s:%s%s:%s" % (PID, pre, pred, kind)


def replay_obj(ev, name):
    return {"kind": "xds-case", "predicate": name, "universe": ev["u"], "meta": ev["meta"], "d": ev["d"], "ixns": ev["ixns"],
            "def": ev["def"], "proto": ev["proto"]}


def stats_of(rows, st):
    for raw in rows:
        e = json.loads(raw)
        st["events"] += 1
        if "obs" not in e:
            continue
        st["callers"] += len(e["obs"])
        st["evaluations"] += len(e["obs"]) * len(e["reqs"]) * (1 if e["fsame"] else 2)
        l7 = any(i["act"] == "l7" for i in e["ixns"])
        peered = any(i["peer"] for i in e["ixns"])
        wild = any(i["src"] == "*" for i in e["ixns"]) and any(i["src"] != "*" for i in e["ixns"])
        st["sets"].add(json.dumps(e["ixns"], sort_keys=True))
        if len(e["ixns"]) >= 2:
            st["nontrivial"].add(json.dumps([e["ixns"], e["def"], e["proto"]], sort_keys=True))
        for o in e["obs"]:
            has1, has0 = "1" in o[4], "0" in o[4]
            st["cls"][(e["proto"], o[0], o[3], "allowed" if has1 and not has0 else "denied" if has0 and not has1 else "mixed")] += 1
            if l7 and e["proto"] == "http" and has1 and has0:
                st["need"]["L7 caller with both allowed and denied requests"] = True
            if o[3].startswith("xfcc") and has1:
                st["need"]["peered caller admitted through XFCC"] = True
            if o[0] in ("nearmiss", "peer-nearmiss"):
                st["need"]["near-miss callers"] = True
        if wild:
            st["need"]["exact and wildcard sources in one set (NOT-lists)"] = True
        if peered and e["proto"] == "tcp":
            st["need"]["peered source on a TCP listener"] = True
        if e["def"] == "allow":
            st["need"]["default allow (DENY policy)"] = True
        if not e["fsame"]:
            st["filter_differs"] += 1


def run(tier):
    t0 = time.time()
    seed = vf.seed()
    binary = vf.build("h-xds")
    work = vf.new_scratch("verif-c14-")
    verdict = vf.Verdict(PID)
    try:
        W = min(8, vf.NCPU)

        def mc_job(m):
            kw = {k: v for k, v in m.items() if k != "cov"}
            return lambda: vf.tlc_mc("RBACMC", "mc.cfg", files={"mc.cfg": cfg_text("RBAC_mc.cfg", **kw)}, timeout=3000,
                                     coverage=bool(m.get("cov")), workers=W)
        # the model of rbac.go AS IT IS: TLC must find the precedence inversion (Enforces violated) and,
        # thorough, show that every disagreement has that one shape (OnlyInversion)
        ac = cfg_text("RBAC_mc.cfg", Profile="src", MaxN=2 if tier == "quick" else 3, WithPeerWild="FALSE").replace("AsCoded = FALSE", "AsCoded = TRUE")
        jobs = [mc_job(m) for m in MC[tier]]
        jobs.append(lambda: vf.tlc("RBACMC", "ac.cfg", files={"ac.cfg": ac}, workers=W, timeout=3000))
        if tier == "thorough":
            jobs.append(lambda: vf.tlc("RBACMC", "ac2.cfg", files={"ac2.cfg": ac.replace("InvKeys Enforces", "InvKeys OnlyInversion")}, workers=W, timeout=3000))
        res = par(jobs)
        states = transitions = 0
        mcs = []
        for m, r in zip(MC[tier], res):
            states += r.distinct
            transitions += r.generated
            mcs.append(dict(m, AsCoded=False, distinct_sets=r.distinct, theorem="Enforces holds", wall_s=round(r.wall, 1)))
            if m.get("cov"):
                vac = [n for n in r.coverage_zero if n in ("Enforces", "Translate", "Eval", "Decision7", "Perms", "NotSources", "Simplify", "Kept", "Next")]
                if vac:
                    raise vf.Infra("vacuous model check: never evaluated %s" % vac)
        r1 = res[len(MC[tier])]
        if r1.violated not in ("Enforces", None) or (r1.violated is None and r1.rc != 0):
            raise vf.Infra("as-coded model run failed rc=%s violated=%s\n%s" % (r1.rc, r1.violated, r1.out[-1500:]))
        as_coded = {"theorem_violated_by_model_of_current_code": r1.violated == "Enforces"}
        if tier == "thorough":
            r2 = res[-1]
            if r2.rc != 0:
                raise vf.Infra("as-coded model: a disagreement outside the inversion shape (or TLC failure) rc=%s violated=%s\n%s" % (r2.rc, r2.violated, r2.out[-1500:]))
            as_coded.update({"all_disagreements_have_inversion_shape": True, "distinct_sets": r2.distinct})

        rows = []      # all recorded events
        src = []       # source tag per event
        gens = []
        for g in GEN[tier]:
            r = vf.tlc_gen("RBACMC", "gen.cfg", timeout=3000, heap="8g", files={"gen.cfg": cfg_text(
                "RBAC_gen.cfg", Profile=g["Profile"], MaxN=g["MaxN"], WithPeerWild=g["WithPeerWild"])})
            cases = list({json.dumps(t, sort_keys=True): t for t in r.traces}.values())
            nev = 0
            for k, (unis, protos, flt) in enumerate(g["replays"]):
                sel = [c for c in cases if flt is None or flt(c["ixns"])]
                inp = {"universes": [UNIVERSES[u] for u in unis], "cases": sel, "seed": seed, "defaults": ["deny", "allow"], "protos": protos}
                ip = os.path.join(work, "in-%s-%d.json" % (g["name"], k))
                json.dump(inp, open(ip, "w"))
                tp = os.path.join(work, "gen-%s-%d.ndjson" % (g["name"], k))
                p = vf.run_harness(binary, ["replay", "-in", ip, "-out", tp])
                if p.returncode != 0:
                    raise vf.Infra("h-xds replay failed: %s" % p.stderr[-2000:])
                want = len(sel) * len(unis) * 2 * len(protos)
                if json.loads(p.stdout)["events"] != want:
                    raise vf.Infra("h-xds produced %s of %d events" % (p.stdout, want))
                part = open(tp).read().splitlines()
                rows += part
                src += ["gen:%s/%s" % (g["name"], "+".join(unis))] * len(part)
                nev += want
                os.remove(tp)
            gens.append({"profile": {k: g[k] for k in ("Profile", "MaxN", "WithPeerWild")}, "sets": len(cases), "events": nev,
                         "replays": [[u, pr, "all sets" if f is None else "filtered"] for u, pr, f in g["replays"]]})
        tp = os.path.join(work, "rnd.ndjson")
        p = vf.run_harness(binary, ["random", "-seed", str(seed), "-n", str(RANDOM[tier]), "-out", tp])
        if p.returncode != 0:
            raise vf.Infra("h-xds random failed: %s" % p.stderr[-2000:])
        part = open(tp).read().splitlines()
        rows += part
        src += ["random"] * len(part)

        st = {"events": 0, "callers": 0, "evaluations": 0, "sets": set(), "nontrivial": set(), "cls": collections.Counter(),
              "need": {}, "filter_differs": 0}
        pred_hits = collections.Counter()
        samples = []
        rejects = validate_rows(rows, work)
        stats_of(rows, st)
        rejected_lines = {l for l, _ in rejects}
        for k, raw in enumerate(rows):
            if len(samples) >= 3:
                break
            if (k + 1) in rejected_lines or (samples and src[k] == samples[-1]["source"]):
                continue
            e = json.loads(raw)
            if "obs" in e and len(e["ixns"]) >= 2:
                samples.append({"source": src[k], "universe": e["u"], "intentions": e["ixns"], "default": e["def"], "protocol": e["proto"],
                                "impl_observations_sample(class,name,peer,how,allowed-per-request)": e["obs"][:5], "accepted_by_tlc": True})
        for line, names in rejects:
            e = json.loads(rows[line - 1])
            for nm in names:
                pred_hits[nm] += 1
                verdict.add(sig_of(nm, e), "predicate %s rejected by TLC at %s event %d: universe %s default %s %s intentions %s" % (
                    nm, src[line - 1], line, e["u"], e["def"], e["proto"], json.dumps([[i["src"], i["peer"], i["dst"], i["act"]] for i in e["ixns"]])[:300]),
                    replay_obj(e, nm))
        need = ["L7 caller with both allowed and denied requests", "peered caller admitted through XFCC",
                "exact and wildcard sources in one set (NOT-lists)", "peered source on a TCP listener", "default allow (DENY policy)",
                "near-miss callers"]
        missing = [k for k in need if not st["need"].get(k)]
        if missing:
            raise vf.Infra("vacuous binding, never observed: %s" % missing)
        n_new = verdict.finish()
        coverage = {
            "states": states, "transitions": transitions,
            "traces_validated_against_impl": st["events"],
            "samples": samples,
            "evaluations": st["evaluations"],
            "distinct_nontrivial": len(st["nontrivial"]),
            "rule": "distinct_nontrivial = distinct (concrete intention set with >= 2 intentions, default, protocol) translated by the real code and "
                    "judged by TLC; evaluations = (concrete caller, request) pairs evaluated on the returned Envoy proto by the independent interpreter",
            "model_check": mcs, "model_of_code_as_it_is(AsCoded=TRUE)": as_coded, "generation": gens, "random_cases": RANDOM[tier],
            "distinct_concrete_sets": len(st["sets"]), "concrete_callers": st["callers"],
            "caller_histogram(proto,class,how,outcome)": {"/".join(k): v for k, v in sorted(st["cls"].items())},
            "filter_builders_answered_differently": st["filter_differs"],
            "predicates": sorted(DOC), "predicate_doc": DOC,
            "rejected_by_predicate": dict(pred_hits), "known_findings_matched": verdict.known_hit,
            "exhaustive": False,
        }
        assumptions = ["TLC evaluates spec/RBACTrace.tla correctly",
                       "harness/internal/xdsh implements Envoy's RBAC matching for the constructs rbac.go emits (anything else aborts); Go regexp (RE2 syntax) with full-match anchoring stands in for Envoy's RE2",
                       "the URI SAN of a leaf certificate is SpiffeIDService.URI().String() (what connect.CreateCSR puts in the CSR)",
                       "L7 traffic from a peer reaches the destination through the local mesh gateway with the client certificate in x-forwarded-client-cert; L4 traffic presents the peer's certificate directly",
                       "trust bundles of all referenced peers are present; JWT requirements are not modelled",
                       "community edition tenancy (one namespace/partition)"]
        vf.write_evidence(PID, tier, "model_checking", coverage, assumptions, time.time() - t0, n_new)
        return 1 if n_new else 0
    finally:
        shutil.rmtree(work, ignore_errors=True)


def _run_case(binary, work, rp, corrupt=None, verbose=False):
    inp = {"universes": [{"id": rp.get("universe", "replay"), "meta": rp.get("meta", False), "names": {"d": rp["d"]}}],
           "cases": [{"ixns": rp["ixns"]}], "seed": vf.seed(), "defaults": [rp["def"]], "protos": [rp["proto"]], "full": True}
    ip = os.path.join(work, "in.json")
    json.dump(inp, open(ip, "w"))
    tp = os.path.join(work, "t.ndjson")
    p = vf.run_harness(binary, ["replay", "-in", ip, "-out", tp] + (["-verbose"] if verbose else []))
    if p.returncode != 0:
        raise vf.Infra(p.stderr[-2000:])
    e = json.loads(open(tp).read())
    if corrupt:
        corrupt(e)
    open(tp, "w").write(json.dumps({k: v for k, v in e.items() if not k.endswith("_verbose")}) + "\n")
    return e, vf.tlc_validate("RBACTrace", "RBACTrace.cfg", tp, nevents=1)


def replay(path):
    rp = json.load(open(path))["replay"]
    binary = vf.build("h-xds")
    work = vf.new_scratch("verif-replay-")
    try:
        e, r = _run_case(binary, work, rp, verbose=True)
        if r.rejects:
            print("rbac returned by the real translation:\n  %s" % e.get("rbac_verbose", "")[:1500])
            for line, names in r.rejects:
                print("event rejected by TLC: %s" % names)
            print("VIOLATION property=%s replay=%s" % (PID, path))
            return 1
        print("replay accepted: %d concrete callers" % len(e.get("obs", [])))
        return 0
    finally:
        shutil.rmtree(work, ignore_errors=True)


def selftest():
    """binding demonstration: flip one recorded bit of a good trace -> TLC must reject"""
    binary = vf.build("h-xds")
    work = vf.new_scratch("verif-self-")
    rp = {"d": "db", "def": "deny", "proto": "http", "ixns": [
        {"src": "web", "peer": "", "dst": "db", "act": "deny", "perms": []},
        {"src": "*", "peer": "", "dst": "db", "act": "allow", "perms": []}]}
    try:
        _, ok = _run_case(binary, work, rp)

        def flip(e):
            o = e["obs"][0]
            o[4] = ("1" if o[4][0] == "0" else "0") + o[4][1:]

        _, bad = _run_case(binary, work, rp, flip)
        print("selftest: good=%s flipped=%s" % (ok.rejects, bad.rejects))
        return 0 if (not ok.rejects and bad.rejects) else 2
    finally:
        shutil.rmtree(work, ignore_errors=True)
