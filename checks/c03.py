"""C03 - the KV store behaves as a sequential versioned map (spec/Store.tla KV part)."""
from checks import storefam

PREDS = {"read-keys", "read-keys-idx", "kv-state", "KeysUnique", "CreateIndexStable", "ModifyIndexRule", "read-get", "read-list",
         "txn-results", "txn-state", "txn-outcome"}
DOC = {
    "kv-state": "kv rows and tombstones after the step equal Store!ApplyAt(pre_impl, cmd)",
    "res": "reply of a KV command equals the sequential map's (bool / nil / error class)",
    "CreateIndexStable": "create index never changes while the key exists",
    "ModifyIndexRule": "a row whose content is unchanged keeps its modify index; a changed row gets the command index",
    "read-get": "KVSGet returns exactly the map's entry", "read-list": "KVSList returns exactly the entries under the prefix, in key order",
    "txn-*": "KV verbs inside transactions give the same results/state as the map",
}


def res_filter(cmd):
    return cmd["t"] == "kv"


def run(tier):
    return storefam.run_store(
        "C03", tier, profiles=["kv"], preds=PREDS, res_filter=res_filter,
        mc_depth={"quick": {"kv": 4}, "thorough": {"kv": 5}},
        gen_depth={"quick": {"kv": 3}, "thorough": {"kv": 4}},
        rnd={"quick": [("kv", 40, 200), ("txn", 30, 150)], "thorough": [("kv", 400, 300), ("txn", 150, 200)]},
        level_text="", pred_doc=DOC,
        rpc={"quick": [("kv", 4, 80), ("txn", 3, 80)], "thorough": [("kv", 25, 150), ("txn", 15, 150)]},
        assumptions=["TLC 1.8 evaluates spec/StoreTrace.tla correctly", "projection h-store/internal/storeh copies fields only",
                     "keys are non-empty byte strings without NUL (the KV endpoint rejects empty keys)",
                     "session IDs are UUIDs minted by the endpoint and never re-used while live"])


def replay(path):
    return storefam.replay_store("C03", path, PREDS, res_filter)
