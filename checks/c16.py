"""C16 - anti-entropy makes the catalog converge to the agent's local state.

spec/AntiEntropy.tla (+MC, +Trace) ; harness/cmd/h-local drives the REAL agent/local.State against a real
catalog store whose RPCs fail per an outcome map keyed by (method, kind, entry id).

  1. TLC checks the properties on the bounded model (every order and every outcome of the calls of a sync)
  2. TLC generates one behaviour per transition of the bounded model; h-local replays them on the real code
  3. h-local's seeded random driver runs longer histories over a larger universe
  4. TLC (AntiEntropyTrace) judges every recorded step from the implementation's own pre-state
"""
import concurrent.futures
import json
import os
import re
import shutil
import time

import vf

PID = "C16"

# predicates of AntiEntropyTrace that belong to the property, most specific first: a rejected step is reported
# under the first one that failed
PROP = ["NoPanic", "DeregNotForgotten", "NoFalseInSync", "DeniedRetried", "Converged",
        "add-flag", "local-state", "rpc-seq", "rpc-shape", "res"]
# predicates about the harness' own model of the servers / the projection: a failure is model drift (exit 2)
DRIFT = ["remote-state", "rpc-got", "proj"]

DOC = {
    "NoPanic": "no command makes local.State panic",
    "DeregNotForgotten": "an entry marked Deleted whose row is still in the catalog stays marked after the step, or the row is gone "
                         "(evaluated on implementation pre/post states of every step)",
    "NoFalseInSync": "an entry the step newly marks InSync (any entry, after a full sync whose reads succeeded) equals its catalog row "
                     "without server-owned fields, unless a call of this step covering it was refused by ACLs; same for nodeInfoInSync",
    "DeniedRetried": "a full sync (reads ok, node-info call not failing) issues a call covering every entry that differs from the catalog "
                     "- in particular those a refusal left marked in sync - or the difference is gone afterwards",
    "Converged": "after a full sync whose reads and calls all succeeded: node row = agent config, every local entry not deleted and equal to "
                 "its catalog row, no other catalog row of the node except the server-managed consul service / serfHealth check",
    "add-flag": "an add leaves InSync true only for an existing entry with an identical definition",
    "local-state": "services/checks/flags/nodeInfoInSync after the step equal the specification's operator applied to the implementation's "
                   "pre-state (a sync is replayed call by call in the order the implementation chose)",
    "rpc-seq": "every call is one the specification allows next (node info first, nothing after its failure, services before checks, "
               "each pending entry exactly once, any order inside a phase) and none is missing; reads as in updateSyncState",
    "rpc-shape": "checks riding on a service registration, service pulled into a check registration, SkipNodeUpdate as specified",
    "res": "error / nil returned as specified (ACL refusals are swallowed, other failures reported)",
    "remote-state": "(model drift, not the property) catalog rows after the step equal the specification's model of the store",
    "rpc-got": "(model drift) a call the harness did not fail was accepted/refused by the real store as the specification predicts",
    "proj": "(model drift) the projection loses nothing the code compares",
}

ASSUMPTIONS = [
    "TLC evaluates spec/AntiEntropyTrace.tla correctly",
    "the servers are represented by a harness delegate that does what Catalog.Register/Deregister do between ACL vetting and raftApply "
    "(single check moved into the slice, msgpack encoding) and applies the request through the real fsm.FSM/state.Store; "
    "ACL decisions and transport failures are injected outcomes, not computed",
    "one agent, one partition/namespace (CE), no peering; service definitions vary in port, tags, EnableTagOverride, Connect.Native only",
    "the defer timer of UpdateCheck is fired explicitly (Timer.Reset(0)), never by the wall clock",
    "private fields of local.State are read with reflect/unsafe under the State's own RWMutex (read only)",
    "local commands are issued the way agent.go issues them (a check needs a live service; a service is removed with its checks)",
]


def kind(c):
    t = c["t"]
    if t in ("add-svc", "add-chk"):
        return "local-add"
    if t == "sync":
        return "sync-full" if c.get("full") else "sync-partial"
    if t == "drift":
        return "drift-" + c["op"]
    return t


def sigkind(c):
    return "sync" if c["t"] == "sync" else kind(c)


def _by_id(rows):
    return {r["id"]: r for r in rows}


def feature(pred, ev, pre):
    """A stable refinement of the command kind for the defect classes known on the unchanged tree, so that a known-finding
    record cannot mask a different failure of the same predicate."""
    c = ev["cmd"]
    post = ev["post"]
    if pred == "NoPanic" and kind(c) == "local-add" and pre is not None:
        ids_s = [c["id"]] if c["t"] == "add-svc" else []
        ids_c = [x["id"] for x in c.get("chks", [])] if c["t"] == "add-svc" else [c["id"]]
        ps, pc = _by_id(pre["svcs"]), _by_id(pre["chks"])
        if any(i in ps and not ps[i]["has"] for i in ids_s) or any(i in pc and not pc[i]["has"] for i in ids_c):
            return "/foreign-marker"
    if pred == "DeregNotForgotten" and c["t"] == "sync" and pre is not None:
        pc, prc = _by_id(pre["chks"]), _by_id(pre["rchks"])
        qc, qrc = _by_id(post["chks"]), _by_id(post["rchks"])
        ps, prs = _by_id(pre["svcs"]), _by_id(pre["rsvcs"])
        qs, qrs = _by_id(post["svcs"]), _by_id(post["rsvcs"])
        forgotten_s = [i for i in ps if ps[i]["del"] and i in prs and not (i in qs and qs[i]["del"]) and i in qrs]
        forgotten_c = [i for i in pc if pc[i]["del"] and i in prc and not (i in qc and qc[i]["del"]) and i in qrc]
        if not forgotten_s and forgotten_c and all(pc[i]["has"] and prc[i]["svc"] != pc[i]["svc"] for i in forgotten_c):
            return "/check-under-other-service"
    return ""


def mc_cfg(depth, profile, cui=True):
    s = open(os.path.join(vf.SPEC, "AntiEntropy_mc.cfg")).read()
    return s.replace("MaxDepth = 3", "MaxDepth = %d" % depth).replace('"base"', '"%s"' % profile).replace("CUI = TRUE", "CUI = %s" % ("TRUE" if cui else "FALSE"))


def gen_cfg(depth, profile, cui=True):
    s = open(os.path.join(vf.SPEC, "AntiEntropy_gen.cfg")).read()
    return s.replace("MaxDepth = 3", "MaxDepth = %d" % depth).replace('"base"', '"%s"' % profile).replace("CUI = TRUE", "CUI = %s" % ("TRUE" if cui else "FALSE"))


def uncovered_spec(out):
    """sub-expressions of the specification that `-coverage 1` reports with count 0 (vf only parses whole actions)"""
    z = set()
    for line in out.splitlines():
        m = re.match(r"^\s*\|*line (\d+), col (\d+) to line (\d+), col (\d+) of module (AntiEntropy\w*): 0$", line)
        if m:
            z.add("%s:%s:%s-%s" % (m.group(5), m.group(1), m.group(2), m.group(4)))
    return sorted(z)


def split_trace(path, work, chunk=12000):
    """Split at events that carry their own pre-state; returns [(path, first_line_offset, n)]."""
    parts = []
    cur, n, off, total = None, 0, 0, 0
    with open(path) as f:
        for line in f:
            if cur is None or (n >= chunk and '"pre":' in line):
                if cur:
                    cur.close()
                    parts.append((pp, off, n))
                    off += n
                pp = os.path.join(work, "%s.part%d" % (os.path.basename(path), len(parts)))
                cur, n = open(pp, "w"), 0
            cur.write(line)
            n += 1
            total += 1
    if cur:
        cur.close()
        parts.append((pp, off, n))
    return parts


def validate(path, work):
    """TLC judges every event of the trace; returns [(line, [predicate names])] with 1-based lines of `path`."""
    parts = split_trace(path, work)

    def one(p):
        pp, off, n = p
        if n == 0:
            return []
        r = vf.tlc_validate("AntiEntropyTrace", "AntiEntropyTrace.cfg", pp, nevents=n, timeout=3000, heap="6g")
        return [(line + off, names) for line, names in r.rejects]

    out = []
    with concurrent.futures.ThreadPoolExecutor(max_workers=2) as ex:
        for rej in ex.map(one, parts):
            out.extend(rej)
    return sorted(out)


def pre_of(rows, k):
    return rows[k]["pre"] if "pre" in rows[k] else (rows[k - 1]["post"] if k > 0 else None)


def history_of(rows, k, behs):
    e = rows[k]
    if behs is not None:
        return behs[e["b"]][: e["i"] + 1]
    lo = k
    while rows[lo]["i"] != 0:
        lo -= 1
    return [r["cmd"] for r in rows[lo:k + 1]]


class Stats:
    """What the validated steps exercised (antecedents of the predicates), measured on the recorded events."""

    def __init__(self):
        self.n = 0
        self.cases = set()
        self.c = {"sync_full": 0, "sync_partial": 0, "full_all_ok": 0, "full_read_fail": 0, "calls": 0, "calls_err": 0, "calls_denied": 0,
                  "calls_store_refused": 0, "node_call_failed": 0, "syncs_with_pending_dereg": 0, "adds_over_existing": 0,
                  "steps_with_denied_marked_entries_before_full": 0, "defer_fired": 0, "max_calls_in_one_sync": 0,
                  "syncs_calls_in_non_sorted_order": 0}

    def see(self, ev, pre):
        c = ev["cmd"]
        self.n += 1
        w = [r for r in ev["rpcs"] if r["m"] != "read"]
        sig = (kind(c), ev["res"]["t"], tuple(sorted((r["fn"], r["got"]) for r in w)))
        self.cases.add(sig)
        if c["t"] == "sync":
            self.c["sync_full" if c["full"] else "sync_partial"] += 1
            self.c["calls"] += len(w)
            self.c["max_calls_in_one_sync"] = max(self.c["max_calls_in_one_sync"], len(w))
            self.c["calls_err"] += sum(1 for r in w if r["got"] == "err")
            self.c["calls_denied"] += sum(1 for r in w if r["got"] in ("denied", "notfound"))
            self.c["calls_store_refused"] += sum(1 for r in w if r["inj"] == "ok" and r["got"] == "err")
            self.c["node_call_failed"] += sum(1 for r in w if r["k"] == "n" and r["got"] == "err")
            for k in ("s", "c"):
                ids = [r["id"] for r in w if r["k"] == k]
                if ids != sorted(ids):
                    self.c["syncs_calls_in_non_sorted_order"] += 1
                    break
            if c["full"] and c["read"] != "ok":
                self.c["full_read_fail"] += 1
            if c["full"] and c["read"] == "ok" and ev["res"]["t"] == "ok" and all(r["got"] == "ok" for r in w):
                self.c["full_all_ok"] += 1
            if pre is not None:
                rs, rc = {x["id"] for x in pre["rsvcs"]}, {x["id"] for x in pre["rchks"]}
                if any(x["del"] and x["id"] in rs for x in pre["svcs"]) or any(x["del"] and x["id"] in rc for x in pre["chks"]):
                    self.c["syncs_with_pending_dereg"] += 1
                if c["full"] and (any(x["ins"] and not x["del"] and x["id"] not in rs for x in pre["svcs"]) or
                                  any(x["ins"] and not x["del"] and x["id"] not in rc for x in pre["chks"])):
                    self.c["steps_with_denied_marked_entries_before_full"] += 1
        elif kind(c) == "local-add" and pre is not None:
            if any(x["id"] == c["id"] for x in pre["svcs" if c["t"] == "add-svc" else "chks"]):
                self.c["adds_over_existing"] += 1
        elif c["t"] == "fire" and ev["res"]["t"] == "ok":
            self.c["defer_fired"] += 1


def judge(name, tp, behs, cui, work, verdict, stats, pred_hits, drift, samples):
    rows = vf.read_ndjson(tp)
    for k, e in enumerate(rows):
        stats.see(e, pre_of(rows, k))
    rej = validate(tp, work)
    rejected = {line for line, _ in rej}
    for k in (0, min(len(rows) - 1, 5)):
        if len(samples) < 6 and rows and (k + 1) not in rejected:
            e = rows[k]
            samples.append({"source": name, "cmd": e["cmd"], "impl_result": e["res"]["t"],
                            "impl_calls": ["%s(%s)->%s" % (r["fn"], r["id"], r["got"]) for r in e["rpcs"] if r["m"] != "read"],
                            "accepted_by_tlc": True})
    for line, names in rej:
        e = rows[line - 1]
        for nm in names:
            pred_hits[nm] = pred_hits.get(nm, 0) + 1
        prop = [p for p in PROP if p in names]
        if not prop:
            drift.append("%s line %d: %s cmd=%s" % (name, line, names, json.dumps(e["cmd"])[:200]))
            continue
        pred = prop[0]
        sig = "%s:%s:%s%s" % (PID, pred, sigkind(e["cmd"]), feature(pred, e, pre_of(rows, line - 1)))
        verdict.add(sig, "TLC rejects step %d of %s under %s (also: %s): cmd=%s impl_res=%s calls=%s" % (
            line, name, pred, ",".join(n for n in names if n != pred) or "-", json.dumps(e["cmd"])[:300], e["res"]["t"],
            [(r["fn"], r["id"], r["got"]) for r in e["rpcs"] if r["m"] != "read"]),
            {"kind": "local-history", "cui": e["cfg"]["cui"], "history": history_of(rows, line - 1, behs), "predicate": pred})
    return len(rows)


TIERS = {
    # mc: (profile, depth, coverage) ; gen: (profile, depth) ; rnd: (histories, length)
    "quick": {"mc": [("base", 3, False)], "gen": [("base", 2)], "rnd": (60, 60)},
    # (the full "base" alphabet at depth 5 is 1.04M distinct states / 10M transitions: 4-15 min depending on machine load;
    #  the "core" sub-alphabet goes to depth 5 inside the tier budget)
    "thorough": {"mc": [("wide", 4, True), ("core", 5, False)], "gen": [("wide", 3)], "rnd": (300, 80)},
}


def run(tier):
    t0 = time.time()
    seed = vf.seed()
    T = TIERS[tier]
    binary = vf.build("h-local")
    work = vf.new_scratch("verif-%s-" % PID)
    verdict = vf.Verdict(PID)
    stats = Stats()
    pred_hits, drift, samples = {}, [], []
    cov = {"mc": [], "gen": [], "random": []}
    states = transitions = n_beh = n_events = 0
    try:
        for prof, depth, coverage in T["mc"]:
            r = vf.tlc_mc("AntiEntropyMC", "mc.cfg", files={"mc.cfg": mc_cfg(depth, prof)}, timeout=3000, heap="12g",
                          workers=min(10, vf.NCPU), coverage=coverage)
            states += r.distinct
            transitions += r.generated
            never = [a for a in r.coverage_zero] + uncovered_spec(r.out)
            cov["mc"].append({"profile": prof, "depth": depth, "distinct": r.distinct, "generated": r.generated, "wall_s": round(r.wall, 1),
                              "coverage_zero": never[:20]})
            if never:
                raise vf.Infra("vacuous model check: never evaluated %s" % never[:10])
        for prof, depth in T["gen"]:
            g = vf.tlc_gen("AntiEntropyMC", "gen.cfg", files={"gen.cfg": gen_cfg(depth, prof)}, timeout=3000, heap="8g")
            behs = vf.dedup_behaviours(g.traces)
            bf = os.path.join(work, "beh-%s.json" % prof)
            with open(bf, "w") as f:
                json.dump(behs, f)
            tp = os.path.join(work, "gen-%s.ndjson" % prof)
            p = vf.run_harness(binary, ["replay", "-in", bf, "-out", tp, "-cui=true"])
            if p.returncode != 0:
                raise vf.Infra("h-local replay failed: %s" % p.stderr[-2000:])
            meta = json.loads(p.stdout)
            n_beh += meta["behaviours"]
            n_events += judge("gen:" + prof, tp, behs, True, work, verdict, stats, pred_hits, drift, samples)
            cov["gen"].append({"profile": prof, "depth": depth, "transitions": len(g.traces), "behaviours": len(behs),
                               "impl_steps_recorded": meta["events"]})
        n, length = T["rnd"]
        tp = os.path.join(work, "rnd.ndjson")
        p = vf.run_harness(binary, ["random", "-seed", str(seed), "-n", str(n), "-len", str(length), "-out", tp])
        if p.returncode != 0:
            raise vf.Infra("h-local random failed: %s" % p.stderr[-2000:])
        n_beh += n
        n_events += judge("random", tp, None, None, work, verdict, stats, pred_hits, drift, samples)
        cov["random"].append({"histories": n, "length": length, "seed": seed,
                              "universe": "4 services + consul, 6 checks + serfHealth, checks that change service, 2 tokens, 4 outcome classes, CheckUpdateInterval on/off"})

        if drift:
            raise vf.Infra("model drift outside the property's view (%d steps), first: %s" % (len(drift), drift[0]))
        # vacuity: every predicate's antecedent must have been exercised on the real code
        need = ["sync_full", "sync_partial", "full_all_ok", "calls_err", "calls_denied", "syncs_with_pending_dereg",
                "adds_over_existing", "steps_with_denied_marked_entries_before_full", "node_call_failed", "syncs_calls_in_non_sorted_order"]
        vac = [k for k in need if stats.c[k] == 0]
        if vac:
            raise vf.Infra("vacuous run: never exercised %s" % vac)

        n_new = verdict.finish()
        coverage = {
            "states": states, "transitions": transitions,
            "traces_validated_against_impl": n_beh,
            "impl_steps_validated": n_events,
            "samples": samples,
            "evaluations": n_events,
            "distinct_nontrivial": len(stats.cases),
            "rule": "every step of every TLC-generated behaviour (one behaviour per transition of the bounded model: every order and "
                    "every ok/err/denied outcome of the calls of a sync) and of seeded random histories is executed on the real "
                    "local.State + state.Store and judged by TLC (AntiEntropyTrace) from the implementation's own pre-state; "
                    "distinct_nontrivial = distinct (command kind, result, multiset of (code section, call result)) seen",
            "antecedents_exercised": stats.c,
            "model_check": cov["mc"], "generation": cov["gen"], "random": cov["random"],
            "predicates": PROP, "drift_predicates": DRIFT, "predicate_doc": DOC,
            "rejected_steps_by_predicate": pred_hits,
            "known_findings_matched": verdict.known_hit,
            "spec_hash": vf.spec_hash("AntiEntropy", "AntiEntropyMC", "AntiEntropyTrace"),
            "exhaustive": False,
        }
        vf.write_evidence(PID, tier, "model_checking", coverage, ASSUMPTIONS, time.time() - t0, n_new)
        return 1 if n_new else 0
    finally:
        shutil.rmtree(work, ignore_errors=True)


def _replay_history(hist, cui, perturb=None, mutate=None):
    binary = vf.build("h-local")
    work = vf.new_scratch("verif-replay-")
    try:
        bf = os.path.join(work, "beh.json")
        json.dump([hist], open(bf, "w"))
        tp = os.path.join(work, "t.ndjson")
        args = ["replay", "-in", bf, "-out", tp, "-cui=%s" % ("true" if cui else "false")]
        if perturb:
            args += ["-perturb", perturb]
        p = vf.run_harness(binary, args)
        if p.returncode != 0:
            raise vf.Infra(p.stderr[-2000:])
        rows = vf.read_ndjson(tp)
        if mutate:
            mutate(rows)
            vf.write_ndjson(tp, rows)
        return rows, validate(tp, work)
    finally:
        shutil.rmtree(work, ignore_errors=True)


def replay(path):
    rp = json.load(open(path))["replay"]
    rows, rej = _replay_history(rp["history"], rp.get("cui", True))
    bad = 0
    for line, names in rej:
        e = rows[line - 1]
        prop = [p for p in PROP if p in names]
        print("step %d rejected: %s cmd=%s res=%s calls=%s" % (line, names, json.dumps(e["cmd"]), e["res"]["t"],
                                                               [(r["fn"], r["id"], r["got"]) for r in e["rpcs"] if r["m"] != "read"]))
        if prop:
            bad += 1
    if bad:
        print("VIOLATION property=%s replay=%s" % (PID, path))
        return 1
    if rej:
        print("INFRA property=%s: only model-drift predicates rejected" % PID)
        return 2
    print("replay accepted: %d steps" % len(rows))
    return 0


GOOD = [
    {"t": "add-svc", "id": "s1", "def": {"port": 1, "eto": False, "tag": "a", "native": False}, "tok": "", "chks": [{"id": "c1", "status": "passing", "output": ""}]},
    {"t": "sync", "full": True, "read": "ok", "out": [{"m": "reg", "k": "s", "id": "s1", "o": "err"}, {"m": "reg", "k": "c", "id": "c1", "o": "denied"}]},
    {"t": "sync", "full": True, "read": "ok", "out": []},
    {"t": "rm-svc", "id": "s1"},
    {"t": "sync", "full": False, "read": "ok", "out": [{"m": "dereg", "k": "s", "id": "s1", "o": "err"}]},
    {"t": "sync", "full": True, "read": "ok", "out": []},
]


def selftest():
    """Binding demonstration: (a) the good history is accepted; (b) one corrupted recorded field is rejected;
    (c) a delegate that acknowledges a registration it did not apply (perturbed real call) is rejected."""
    ok = True
    log = []
    rows, rej = _replay_history(GOOD, True)
    print("selftest a: good history, %d steps, rejected=%s" % (len(rows), rej))
    log.append({"case": "good history accepted", "steps": len(rows), "rejected": rej})
    ok &= not rej

    def corrupt(rows):
        # the failed registration of step 2 is recorded as if it had marked the service in sync
        for s in rows[1]["post"]["svcs"]:
            s["ins"] = True
    rows, rej = _replay_history(GOOD, True, mutate=corrupt)
    print("selftest b: InSync flag flipped in a recorded post-state -> rejected=%s" % rej)
    log.append({"case": "recorded field corrupted: post.svcs[*].ins := true after a failed registration", "rejected": rej})
    ok &= any(line == 2 and ("NoFalseInSync" in names or "local-state" in names) for line, names in rej)
    rows, rej = _replay_history(GOOD[:1] + [GOOD[2]], True, perturb="ack-err")
    print("selftest c: servers acknowledge a registration without applying it -> rejected=%s" % rej)
    log.append({"case": "real call perturbed: delegate acknowledges Catalog.Register without applying it", "rejected": rej})
    ok &= any("NoFalseInSync" in names and "Converged" in names for line, names in rej)
    print("selftest %s" % ("passed" if ok else "FAILED"))
    d = os.path.join(vf.VERIF, "evidence", "selftest")
    os.makedirs(d, exist_ok=True)
    with open(os.path.join(d, PID + ".json"), "w") as f:
        json.dump({"property_id": PID, "passed": bool(ok), "cases": log}, f, indent=1)
    return 0 if ok else 2
