"""C08 - ACL decisions follow rule semantics and depend only on the token's own policies.

spec/ACL.tla (semantics + caches), spec/ACLMC.tla (bounded instances / generators),
spec/ACLTrace.tla (trace validation), harness/cmd/h-acl (executor/recorder).

Pipeline per run:
  1. TLC exhaustive:  ACL_mc (lemmas on the decision table over every rule set of the bounded universe),
                      ACLHist_mc (NoCrossTalk / CachesSound over resolution histories through shared caches),
                      ACL_bug (thorough: the same model with the merge-aliasing transcription switched on MUST
                      violate - shows the model can express the defect class)
  2. TLC generators:  every distinct rule set (sem) ; one resolution history per transition (hist)
  3. h-acl:           realises them with real HCL policies / Compile / ACLResolver, records decision tables;
                      plus a seeded random driver over a wider universe
  4. TLC ACLTrace:    judges every recorded table against Table(OwnRules) ; rejected steps -> signatures
"""
import json
import os
import shutil
import threading
import time

import vf

PID = "C08"

# names queried in TLC-derived runs (must equal QNames of spec/ACLMC.tla)
SIDECAR = [45, 115, 105, 100, 101, 99, 97, 114, 45, 112, 114, 111, 120, 121]
QNAMES = [[], [97], [97, 98], [97, 98, 99], [98], [97, 99], [97] + SIDECAR]

# method -> rule family it is attributed to in a signature (spec/ACL.tla FamMethods; the two
# peer-context reads depend on ServiceWriteAny and are attributed to "service")
GROUP = {}
for fam, ms in {
    "agent": ["AgentRead", "AgentWrite"], "event": ["EventRead", "EventWrite"],
    "key": ["KeyRead", "KeyList", "KeyWrite", "KeyWritePrefix"],
    "node": ["NodeRead", "NodeWrite", "NodeReadAll"],
    "query": ["PreparedQueryRead", "PreparedQueryWrite"],
    "service": ["ServiceRead", "ServiceWrite", "ServiceReadAll", "ServiceReadPrefix", "ServiceWriteAny", "ServiceReadPeer",
                "NodeReadPeer", "IntentionRead", "IntentionWrite", "IntentionReadAny", "IntentionWriteAll"],
    "session": ["SessionRead", "SessionWrite"],
    "scalar": ["ACLRead", "ACLWrite", "Snapshot", "KeyringRead", "KeyringWrite", "MeshRead", "MeshWrite", "PeeringRead",
               "PeeringWrite", "OperatorRead", "OperatorWrite", "IntentionDefaultAllow", "TrafficPermissionsRead",
               "TrafficPermissionsWrite"],
}.items():
    for m in ms:
        GROUP[m] = fam
ALL_METHODS = set(GROUP)

PRED_DOC = {
    "Semantics.<family>": "a table computed from freshly parsed policies (no caches, no history) equals Table(rules) of "
                          "spec/ACL.tla: exact rule wins, else longest prefix, merge deny>write>list>read, default last",
    "NoCrossTalk.<family>": "the table of the authorizer returned for token t through the history's shared caches equals "
                            "Table(OwnRules(t)) - a function of t's own policies, roles and identities only",
    "OrderIndependent": "all realisations of one rule set (every policy order, one policy or many, with/without Compile) "
                        "gave the same table",
    "ExactWins": "property clause, evaluated on the implementation's table: exact-match rules alone decide a name that has one",
    "LongestPrefixWins": "property clause: without exact rule the rules of the longest matching prefix decide",
    "DenyOverrides": "property clause: a deny among the selected rules denies read and write",
    "DefaultDecides": "property clause: no applicable rule -> the default policy's answer",
    "WellFormed": "every recorded answer is allow or deny and every column has one entry per name",
}

ASSUMPTIONS = [
    "TLC evaluates spec/ACLTrace.tla correctly",
    "h-acl only translates rules to HCL text, calls acl.Authorizer methods and copies the answers",
    "via=resolver uses a 30-line ACLResolverBackend over a real state.Store that mirrors serverACLResolverBackend "
    "(a full consul.Server is not started)",
    "where several policies give service rules for one name and only some carry an explicit `intentions` level the "
    "property is silent: both readings (merge fields then derive / derive per rule then merge) are accepted",
    "KeyWritePrefix, ServiceReadPrefix, *All/*Any and peer-context reads follow the semantics written in the doc "
    "comments of acl/policy_authorizer.go",
    "CE build: namespaces/partitions (enterprise rules) are out of scope",
]

TIERS = {
    # *_gen runs are exhaustive TLC runs WITH the invariants that also print the rule sets / histories;
    # *_mc runs (thorough) are larger exhaustive runs without printing.
    "quick": dict(
        sem_gen=[dict(MaxRules=2, SvcInts='{"", "write"}', NameCount=3, Fams=None)],
        hist_gen=[dict(MaxDepth=2, NC=(4, 3, 1), both_vias=False),
                  # tokens carrying the same synthetic policy twice (identity + templated policy) and their twins
                  dict(MaxDepth=2, NC=(0, 2, 0), both_vias=True, TokSet="dup")],
        sem_mc=None, hist_mc=None,
        rnd=dict(n=32, length=8),
        chunks={"gen:sem": 2, "gen:hist": 3, "random": 1},
    ),
    "thorough": dict(
        sem_gen=[dict(MaxRules=2, SvcInts='{"", "deny", "write"}', NameCount=5, Fams=None),
                 dict(MaxRules=3, SvcInts='{"", "write"}', NameCount=3, Fams='{"key", "service", "node"}')],
        hist_gen=[dict(MaxDepth=2, NC=(4, 4, 2), both_vias=True),
                  dict(MaxDepth=3, NC=(3, 2, 1), both_vias=False),
                  dict(MaxDepth=2, NC=(2, 3, 1), both_vias=True, TokSet="dup"),
                  dict(MaxDepth=3, NC=(0, 1, 0), both_vias=False, TokSet="dup")],
        sem_mc=None, hist_mc=dict(MaxDepth=3, NC=(4, 4, 2)),
        rnd=dict(n=200, length=12),
        chunks={"gen:sem": 5, "gen:hist": 10, "random": 4},
    ),
}

ALL_FAMS = '{"agent", "event", "key", "node", "query", "service", "session", "scalar"}'


def _cfg(name, **kw):
    s = open(os.path.join(vf.SPEC, name)).read()
    out = []
    for line in s.splitlines():
        k = line.strip().split(" = ")[0] if " = " in line else None
        if k in kw and kw[k] is not None:
            line = "  %s = %s" % (k, kw[k])
        out.append(line)
    return "\n".join(out) + "\n"


def _sem_cfg(base, p):
    return _cfg(base, MaxRules=p["MaxRules"], SvcInts=p["SvcInts"], NameCount=p["NameCount"], Fams=p["Fams"] or ALL_FAMS)


def _hist_cfg(base, p, alias=None):
    return _cfg(base, MaxDepth=p["MaxDepth"], NC1=p["NC"][0], NC2=p["NC"][1], NC3=p["NC"][2],
                AliasBug=alias, TokSet='"%s"' % p.get("TokSet", "base"))


# ----------------------------------------------------------------------------- conversions

def _pn(i):
    return "p%d" % i


def hist_to_behaviours(hists, both_vias=True):
    """TLC history [world, cmd...] -> h-acl behaviours (each history in both resolution paths)."""
    out = []
    for k, h in enumerate(hists):
        w = h[0]
        env = {
            "pol": {_pn(i + 1): rules for i, rules in enumerate(w["pol"])},
            "roles": {r: {"pols": [_pn(i) for i in v["pols"]], "svc": v["svc"], "node": v["node"],
                          "tsvc": v["tsvc"], "tnode": v["tnode"]} for r, v in w["roles"].items()},
            "tok": {t: {"pols": [_pn(i) for i in v["pols"]], "roles": v["roles"], "svc": v["svc"], "node": v["node"],
                        "tsvc": v["tsvc"], "tnode": v["tnode"]}
                    for t, v in w["tok"].items()},
        }
        cmds = []
        for c in h[1:]:
            if c["t"] == "resolve":
                cmds.append({"t": "resolve", "tok": c["tok"]})
            else:
                cmds.append({"t": "setpolicy", "p": _pn(c["p"]), "rules": c["rules"]})
        if not any(c["t"] == "resolve" for c in cmds):
            continue
        vias = ("resolver", "compile") if both_vias else (("resolver", "compile")[k % 2],)
        for j, via in enumerate(vias):
            out.append({"world": {"env": json.loads(json.dumps(env)), "names": QNAMES, "dflt": ("deny", "allow")[(k + j) % 2],
                                  "fams": ["service", "key", "node"], "via": via,
                                  "cache": ("big", "noauthz")[(k // 2 + j) % 2]},
                        "cmds": cmds})
    return out


def behaviour_at(rows, line):
    """the behaviour (world + commands) that leads to 1-based trace line `line`"""
    lo = line - 1
    while rows[lo]["cmd"]["t"] != "world":
        lo -= 1
    w = rows[lo]["cmd"]
    world = {"env": w["env"], "names": w["names"], "dflt": w["dflt"], "fams": w.get("fams", ["*"]), "via": w["via"], "cache": w["cache"]}
    return {"world": world, "cmds": [r["cmd"] for r in rows[lo + 1:line]]}


def sigs_of(names, kind):
    """predicate names printed by ACLTrace -> {signature: [predicate names]}"""
    out = {}
    for nm in names:
        if "." in nm:
            pred, meth = nm.split(".", 1)
            key = "%s:%s.%s:%s" % (PID, pred, GROUP.get(meth, "unknown-method"), kind)
        else:
            key = "%s:%s:%s" % (PID, nm, kind)
        out.setdefault(key, []).append(nm)
    return out


def judge(rows, rejects, source, verdict, pred_hits):
    for line, names in rejects:
        ev = rows[line - 1]
        kind = ev["cmd"]["t"]
        for sig, preds in sigs_of(names, kind).items():
            pred_hits[sig] = pred_hits.get(sig, 0) + 1
            if kind == "decide":
                rp = {"kind": "acl-ruleset", "rules": ev["cmd"]["rules"], "names": ev["cmd"]["names"], "fams": sorted({GROUP.get(m, "*") for t in ev["res"]["tables"] for m in t})}
                what = "%s rejected by TLC (%s line %d): rules=%s dflt=%s hows=%s" % (
                    ",".join(preds), source, line, json.dumps(ev["cmd"]["rules"])[:400], ev["cmd"]["dflt"], ev["res"].get("hows"))
            else:
                rp = {"kind": "acl-history", "behaviour": behaviour_at(rows, line)}
                what = "%s rejected by TLC (%s line %d): resolve %s after %s via=%s" % (
                    ",".join(preds), source, line, ev["cmd"].get("tok"),
                    [c.get("tok", c["t"]) for c in rp["behaviour"]["cmds"][:-1]], rp["behaviour"]["world"]["via"])
            verdict.add(sig, what, rp)


_JVMS = threading.BoundedSemaphore(max(2, min(10, vf.NCPU - 4)))


def validate(path, nevents):
    with _JVMS:
        return vf.tlc_validate("ACLTrace", "ACLTrace.cfg", path, nevents=nevents, timeout=3000, heap="6g")


def par(thunks, workers):
    """run thunks concurrently (each starts its own TLC JVM); results in order; first exception propagates"""
    from concurrent.futures import ThreadPoolExecutor
    with ThreadPoolExecutor(max_workers=workers) as ex:
        futs = [ex.submit(t) for t in thunks]
        return [f.result() for f in futs]


def validate_chunked(path, nchunks, work):
    """split a trace at history boundaries (world / decide events), validate the chunks in parallel JVMs and
    return (rows, rejects with line numbers of the whole trace)"""
    rows = vf.read_ndjson(path)
    starts = [i for i, e in enumerate(rows) if e["cmd"]["t"] in ("world", "decide")]
    if not rows or starts[0] != 0:
        raise vf.Infra("trace %s does not start with a world/decide event" % path)
    per = max(1, -(-len(starts) // nchunks))
    cuts = [starts[i] for i in range(0, len(starts), per)] + [len(rows)]
    # balance by events rather than by units when units are uneven
    thunks = []
    for k in range(len(cuts) - 1):
        lo, hi = cuts[k], cuts[k + 1]
        cp = "%s.chunk%d" % (path, k)
        vf.write_ndjson(cp, rows[lo:hi])
        thunks.append(lambda cp=cp, lo=lo, hi=hi: (lo, validate(cp, hi - lo)))
    rejects = []
    for lo, r in par(thunks, min(len(thunks), 8)):
        rejects += [(lo + line, names) for line, names in r.rejects]
    return rows, sorted(rejects)


def run_h(binary, args):
    p = vf.run_harness(binary, args)
    if p.returncode != 0:
        raise vf.Infra("h-acl %s failed: %s" % (args[0], p.stderr[-2000:]))
    return json.loads(p.stdout.strip().splitlines()[-1])


def nontrivial_keys(rows):
    """distinct non-trivial cases: (rule set, default) of decide events with >= 1 rule ; (world, token, tokens
    resolved before it in the same history) of resolve events of tokens that have at least one link"""
    keys = set()
    world = None
    before = []
    for e in rows:
        c = e["cmd"]
        if c["t"] == "decide":
            if c["rules"]:
                keys.add("D" + json.dumps(sorted(json.dumps(r, sort_keys=True) for r in c["rules"])) + c["dflt"])
        elif c["t"] == "world":
            world = json.dumps([c["env"], c["dflt"], c["via"], c["cache"]], sort_keys=True)
            toks = c["env"]["tok"]
            before = []
        elif c["t"] == "resolve":
            t = toks[c["tok"]]
            if t["pols"] or t["roles"] or t["svc"] or t["node"] or t.get("tsvc") or t.get("tnode"):
                keys.add("R" + str(hash((world, c["tok"], tuple(before)))))
            before.append(c["tok"])
        else:
            before.append(json.dumps(c, sort_keys=True))
    return keys


def _is_prefix(p, n):
    return len(p) <= len(n) and n[:len(p)] == p


def exercised(rows, ex):
    """vacuity counters: how often the antecedent of each clause / of NoCrossTalk was actually met"""
    import collections
    toks = pols = None
    seen_pols = set()
    for e in rows:
        c = e["cmd"]
        if c["t"] == "decide":
            rules, names = c["rules"], c["names"]
            named = [r for r in rules if r["k"] not in ("acl", "keyring", "operator", "mesh", "peering")]
            if any(r["m"] == "exact" and r["n"] in names for r in named):
                ex["ExactWins"] += 1
            if any(r["m"] == "prefix" and q["m"] == "prefix" and r["k"] == q["k"] and r["n"] != q["n"] and _is_prefix(r["n"], q["n"])
                   for r in named for q in named):
                ex["LongestPrefixWins(nested prefixes)"] += 1
            if any(r["lv"] == "deny" for r in named):
                ex["DenyOverrides"] += 1
            if any(not any(_is_prefix(r["n"], n) for r in named if r["m"] == "prefix") for n in names):
                ex["DefaultDecides"] += 1
            if any(r["k"] == q["k"] and r["n"] == q["n"] and r["m"] == q["m"] and r["lv"] != q["lv"] for r in named for q in named):
                ex["same slot, different levels (merge)"] += 1
            if e["res"]["n"] > 1:
                ex["OrderIndependent(>1 realisation)"] += 1
        elif c["t"] == "world":
            toks, roles = c["env"]["tok"], c["env"]["roles"]
            seen_pols = set()
            alive = set(c["env"]["pol"])
            cached = c.get("cache") != "noauthz"     # without an authorizer cache the order cannot matter
            ver = {}
            seen_lists = {}      # policy list reduced modulo duplicate pairs -> set of full lists resolved so far
        elif c["t"] in ("setpolicy", "delpolicy"):
            ver[c["p"]] = ver.get(c["p"], 0) + 1
            alive = (alive | {c["p"]}) if c["t"] == "setpolicy" else (alive - {c["p"]})
        elif c["t"] == "resolve":
            t = toks[c["tok"]]
            owners = [t] + [roles[r] for r in t["roles"] if r in roles]
            mine = {p for o in owners for p in o["pols"]}
            if mine & seen_pols:
                ex["NoCrossTalk(shares a policy with an earlier resolution)"] += 1
            seen_pols |= mine
            # the effective policy list as a multiset: linked policies (with their version) once, a synthetic policy
            # once per KIND that yields it (identity, templated policy)
            def names(f):
                return {tuple(n) for o in owners for n in o.get(f, [])}
            full = collections.Counter({("pol", p, ver.get(p, 0)): 1 for p in mine if p in alive})
            for kind, a, b in (("svc", "svc", "tsvc"), ("node", "node", "tnode")):
                for n in names(a):
                    full[(kind, n)] += 1
                for n in names(b):
                    full[(kind, n)] += 1
            has_dup = any(v > 1 for v in full.values())
            reduced = frozenset(k for k, v in full.items() if v % 2 == 1)
            fullkey = frozenset(full.items())
            for other, other_dup in seen_lists.get(reduced, ()):
                if other != fullkey and cached:
                    if has_dup:
                        ex["duplicate synthetic policy: token resolved AFTER its twin (same list minus the pair)"] += 1
                    if other_dup:
                        ex["duplicate synthetic policy: twin resolved AFTER the token that has the pair"] += 1
                    break
            seen_lists.setdefault(reduced, set()).add((fullkey, has_dup))
            if has_dup:
                ex["duplicate synthetic policy: resolutions of such tokens"] += 1
    return ex


# ----------------------------------------------------------------------------- run

def run(tier):
    t0 = time.time()
    T = TIERS[tier]
    seed = vf.seed()
    binary = vf.build("h-acl")
    work = vf.new_scratch("verif-%s-" % PID)
    verdict = vf.Verdict(PID)
    cov = {"model_check": [], "generation": [], "random": []}
    pred_hits = {}
    samples = []
    nontrivial = set()
    n_beh = n_events = n_dec = 0
    methods_seen = set()
    import collections
    exer = collections.Counter({k: 0 for k in ("ExactWins", "LongestPrefixWins(nested prefixes)", "DenyOverrides", "DefaultDecides",
                                               "same slot, different levels (merge)", "OrderIndependent(>1 realisation)",
                                               "NoCrossTalk(shares a policy with an earlier resolution)",
                                               "duplicate synthetic policy: resolutions of such tokens",
                                               "duplicate synthetic policy: token resolved AFTER its twin (same list minus the pair)",
                                               "duplicate synthetic policy: twin resolved AFTER the token that has the pair")})
    thorough = tier == "thorough"
    W = 4
    SEM_INV = ["InvExactWins", "InvLongestPrefix", "InvDenyOverrides", "InvDefaultDecides", "InvMergeOrderFree", "InvVariantsAgree", "InvTotal"]
    HIST_INV = ["NoCrossTalk", "InvCachesSound"]
    try:
        # 1 + 2. exhaustive model checks (invariants) that also print every rule set / history, concurrently
        def mc(cfgname, text, **kw):
            r = vf.tlc("ACLMC", cfgname, files={cfgname: text}, timeout=3000, workers=W, coverage=thorough, heap="8g", **kw)
            if r.rc != 0 or r.distinct == 0:
                raise vf.Infra("model check ACLMC/%s failed rc=%s violated=%s\n%s" % (cfgname, r.rc, r.violated, r.out[-3000:]))
            return r
        jobs = []
        for i, gp in enumerate(T["sem_gen"]):
            jobs.append(("sem_gen", gp, lambda gp=gp, i=i: mc("gen_sem%d.cfg" % i, _sem_cfg("ACL_gen.cfg", gp))))
        for i, gp in enumerate(T["hist_gen"]):
            jobs.append(("hist_gen", gp, lambda gp=gp, i=i: mc("gen_hist%d.cfg" % i, _hist_cfg("ACLHist_gen.cfg", gp))))
        if T["sem_mc"]:
            jobs.append(("sem_mc", T["sem_mc"], lambda: mc("mc_sem.cfg", _sem_cfg("ACL_mc.cfg", T["sem_mc"]))))
        if T["hist_mc"]:
            jobs.append(("hist_mc", T["hist_mc"], lambda: mc("mc_hist.cfg", _hist_cfg("ACLHist_mc.cfg", T["hist_mc"]))))
        if thorough:
            jobs.append(("bug", None, lambda: vf.tlc("ACLMC", "bug.cfg", files={"bug.cfg": _hist_cfg("ACLHist_mc.cfg", dict(MaxDepth=2, NC=(4, 4, 2)), alias="TRUE")},
                                                     workers=2, timeout=1200)))
        res = par([j[2] for j in jobs], len(jobs))
        states = transitions = 0
        g_sems, g_hists = [], []
        for (kind, params, _), r in zip(jobs, res):
            if kind == "bug":
                if r.violated not in ("NoCrossTalk", "InvCachesSound"):
                    raise vf.Infra("model drift: the merge-aliasing transcription (AliasBug=TRUE) no longer violates "
                                   "NoCrossTalk/InvCachesSound (violated=%s)" % r.violated)
                cov["model_check"].append({"cfg": "ACLHist_mc with AliasBug=TRUE (expected to fail)", "violated": r.violated})
                continue
            states += r.distinct
            transitions += r.generated
            zero = [z for z in r.coverage_zero if z not in ("SemInit", "SemNext", "HInit", "HNext")]
            cov["model_check"].append({"run": kind, "params": {k: v for k, v in params.items()}, "distinct": r.distinct, "generated": r.generated,
                                       "invariants": SEM_INV if kind.startswith("sem") else HIST_INV, "coverage_zero": zero[:20]})
            if kind == "sem_gen":
                g_sems.append((params, r))
            if kind == "hist_gen":
                g_hists.append((params, r))
            if kind.endswith("_gen") and not r.traces:
                raise vf.Infra("generator %s printed nothing" % kind)

        traces = []
        # 2a. every distinct rule set of the bounded universe -> real policies
        seen_sets = set()
        sets = []
        for gp, g in g_sems:
            fresh = 0
            for t in g.traces:
                key = json.dumps(sorted(json.dumps(x, sort_keys=True) for x in t["rules"]))
                if key in seen_sets:
                    continue
                seen_sets.add(key)
                fresh += 1
                sets.append({"rules": t["rules"], "fams": [t["fam"]]})
            cov["generation"].append({"cfg": "ACL_gen (sem)", "params": gp, "states": g.distinct, "rule_sets": fresh})
        inp = os.path.join(work, "sets.json")
        json.dump({"names": QNAMES, "sets": sets}, open(inp, "w"))
        tp = os.path.join(work, "sem.ndjson")
        meta = run_h(binary, ["decide", "-in", inp, "-out", tp, "-seed", str(seed)])
        traces.append(("gen:sem", tp, meta))
        # 2b. resolution histories through shared caches
        behs = []
        for gp, g in g_hists:
            hists = vf.dedup_behaviours(g.traces)
            bs = hist_to_behaviours(hists, gp["both_vias"])
            behs += bs
            cov["generation"].append({"cfg": "ACLHist_gen (hist)", "params": gp, "transitions": len(g.traces),
                                      "histories": len(hists), "behaviours_replayed": len(bs)})
        inp = os.path.join(work, "behs.json")
        json.dump(behs, open(inp, "w"))
        tp = os.path.join(work, "hist.ndjson")
        meta = run_h(binary, ["replay", "-in", inp, "-out", tp])
        traces.append(("gen:hist", tp, meta))
        # 3. random driver
        tp = os.path.join(work, "rnd.ndjson")
        meta = run_h(binary, ["random", "-seed", str(seed), "-n", str(T["rnd"]["n"]), "-len", str(T["rnd"]["length"]), "-out", tp])
        traces.append(("random", tp, meta))
        cov["random"].append(dict(T["rnd"], seed=seed, events=meta["events"]))

        # 4. TLC judges (chunks of every trace in parallel JVMs)
        judged = par([lambda tp=tp, name=name: validate_chunked(tp, T["chunks"][name], work) for name, tp, _ in traces], len(traces))
        for (name, tp, meta), (rows, rejects) in zip(traces, judged):
            if len(rows) != meta["events"]:
                raise vf.Infra("trace %s has %d rows, harness reported %d" % (name, len(rows), meta["events"]))
            n_beh += meta["behaviours"]
            n_events += meta["events"]
            n_dec += meta["decisions"]
            judge(rows, rejects, name, verdict, pred_hits)
            nontrivial |= nontrivial_keys(rows)
            exercised(rows, exer)
            for e in rows:
                if "res" in e:
                    for tab in (e["res"].get("tables") or [e["res"]["shared"]]):
                        methods_seen |= set(tab)
            rej_lines = {ln for ln, _ in rejects}
            taken = 0
            for k, e in enumerate(rows):
                if "res" in e and taken < 2 and k % 97 == 3:
                    taken += 1
                    c = e["cmd"]
                    tab = (e["res"].get("tables") or [e["res"].get("shared")])[0]
                    samples.append({"source": name, "cmd": {x: c[x] for x in c if x not in ("names",)},
                                    "impl_table_excerpt": {m: tab[m] for m in sorted(tab)[:4]},
                                    "accepted_by_tlc": (k + 1) not in rej_lines})
        missing = ALL_METHODS - methods_seen
        if missing:
            raise vf.Infra("vacuity: authorizer methods never recorded: %s" % sorted(missing))
        vac = [k for k, v in exer.items() if v == 0]
        if vac:
            raise vf.Infra("vacuity: antecedent never exercised on the implementation: %s" % vac)
        n_new = verdict.finish()
        coverage = {
            "states": states, "transitions": transitions,
            "traces_validated_against_impl": n_beh,
            "impl_steps_validated": n_events,
            "authorizer_decisions_recorded": n_dec,
            "samples": samples,
            "evaluations": n_events,
            "distinct_nontrivial": len(nontrivial),
            "rule": "every rule set enumerated by TLC (ACL_gen) is realised as real HCL policies in every policy order / "
                    "as one policy / through Compile, and every resolution history enumerated by TLC (ACLHist_gen) plus "
                    "seeded random histories is executed through ONE shared cache (ACLPolicies.Compile and the real "
                    "ACLResolver); every acl.Authorizer method x name is recorded and judged by TLC (ACLTrace). "
                    "distinct_nontrivial = distinct (non-empty rule set, default) pairs + distinct (world, token with >=1 "
                    "link, commands executed before it) resolutions",
            "model_check": cov["model_check"], "generation": cov["generation"], "random": cov["random"],
            "methods_recorded": len(methods_seen),
            "antecedents_exercised": dict(exer),
            "predicate_doc": PRED_DOC,
            "rejected_steps_by_signature": pred_hits,
            "known_findings_matched": verdict.known_hit,
            "exhaustive": False,
        }
        vf.write_evidence(PID, tier, "model_checking", coverage, ASSUMPTIONS, time.time() - t0, n_new)
        return 1 if n_new else 0
    finally:
        shutil.rmtree(work, ignore_errors=True)


# ----------------------------------------------------------------------------- replay / selftest

def _run_replay_obj(binary, work, rp, extra=None):
    tp = os.path.join(work, "t.ndjson")
    inp = os.path.join(work, "in.json")
    if rp["kind"] == "acl-ruleset":
        json.dump({"names": rp["names"], "sets": [{"rules": rp["rules"], "fams": rp.get("fams") or ["*"]}]}, open(inp, "w"))
        meta = run_h(binary, ["decide", "-in", inp, "-out", tp] + (extra or []))
    else:
        json.dump([rp["behaviour"]], open(inp, "w"))
        meta = run_h(binary, ["replay", "-in", inp, "-out", tp] + (extra or []))
    r = validate(tp, meta["events"])
    return vf.read_ndjson(tp), r


def replay(path):
    obj = json.load(open(path))
    rp = obj["replay"] if "replay" in obj else obj
    binary = vf.build("h-acl")
    work = vf.new_scratch("verif-replay-")
    try:
        rows, r = _run_replay_obj(binary, work, rp)
        bad = 0
        for line, names in r.rejects:
            ev = rows[line - 1]
            for sig, preds in sigs_of(names, ev["cmd"]["t"]).items():
                print("step %d rejected: sig=%s preds=%s cmd=%s" % (line, sig, preds, json.dumps({k: v for k, v in ev["cmd"].items() if k != "names"})[:300]))
                bad += 1
        if bad:
            print("VIOLATION property=%s replay=%s" % (PID, path))
            return 1
        print("replay accepted: %d events" % len(rows))
        return 0
    finally:
        shutil.rmtree(work, ignore_errors=True)


def selftest():
    """Binding demonstration: (i) a recorded answer of a good trace is corrupted -> TLC must reject it;
    (ii) h-acl -perturb flips one answer of the real authorizer -> TLC must reject it."""
    binary = vf.build("h-acl")
    work = vf.new_scratch("verif-selftest-")
    try:
        rp = {"kind": "acl-ruleset", "names": QNAMES, "fams": ["key"],
              "rules": [{"k": "key", "n": [97], "m": "prefix", "lv": "read", "int": ""},
                        {"k": "key", "n": [97, 98], "m": "exact", "lv": "write", "int": ""}]}
        rows, r = _run_replay_obj(binary, work, rp)
        if r.rejects:
            print("selftest: clean trace rejected?", r.rejects)
            return 2
        rows[0]["res"]["tables"][0]["KeyWrite"][2] = "deny"      # KeyWrite("ab") is allow (exact write)
        tp = os.path.join(work, "corrupt.ndjson")
        vf.write_ndjson(tp, rows)
        r1 = validate(tp, len(rows))
        rows2, r2 = _run_replay_obj(binary, work, rp, ["-perturb", "9"])
        ok = bool(r1.rejects) and bool(r2.rejects)
        print("selftest: corrupted field rejected=%s (%s) ; perturbed call rejected=%s (%s)" % (
            bool(r1.rejects), r1.rejects[:1], bool(r2.rejects), r2.rejects[:1]))
        os.makedirs(os.path.join(vf.VERIF, "evidence", "selftest"), exist_ok=True)
        json.dump({"property": PID, "corrupted_field_rejected": bool(r1.rejects), "perturbed_call_rejected": bool(r2.rejects),
                   "rejects": [r1.rejects[:2], r2.rejects[:2]]}, open(os.path.join(vf.VERIF, "evidence", "selftest", "C08.json"), "w"), indent=1)
        return 0 if ok else 1
    finally:
        shutil.rmtree(work, ignore_errors=True)
