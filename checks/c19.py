"""C19 - one replication round makes a secondary datacenter equal to the primary.

spec/ReplDiff.tla transcribes the merge-walks diffACLType / diffConfigEntries /
FederationStateReplicator.DiffRemoteAndLocalState step by step; spec/ReplDiffMC.tla lets TLC check
termination and RoundOK over every small (secondary, primary, lastRemoteIndex) triple that satisfies
the environment assumption. The same triples (printed by TLC) and seeded random larger ones are
executed by harness/cmd/h-repl against the real diff functions and two real state stores; TLC
(spec/ReplDiffTrace.tla) judges every recorded round.
"""
import json
import os
import random
import shutil
import threading
import time
from concurrent.futures import ThreadPoolExecutor

import vf

PID = "C19"

PRED_DOC = {
    "diff-walk": "the (deletions, upserts) returned by the real diff equal, as sets and without repetition, what the "
                 "step-wise walk of spec/ReplDiff.tla produces on the same listings and lastRemoteIndex",
    "diff-sound": "deletions = ids listed locally and absent remotely; upserts contain every remote object that is missing "
                  "or has different content locally and only ids of the remote listing",
    "post-equals-remote": "after applying the returned diff to the real secondary store, its replicated set equals the "
                          "primary's listing by (id, content)",
    "local-only-untouched": "local-scoped tokens of the secondary are exactly what they were; nothing is written under the empty id",
    "others-untouched": "objects the diff did not name keep content, hash and modify index",
    "equal-no-writes": "a secondary whose replicated set already equals the primary's (hashes present) gets an empty diff, "
                       "no raft command and an unchanged store",
    "local-listing": "the listing the real FetchLocal / ConfigEntries / FederationStateList handed to the diff is exactly the "
                     "non-local-only part of the real secondary store (local-scoped tokens are not listed)",
    "hash-faithful": "for one object, the hashes stored by the real code (SetHash, HashConfigEntry) are equal exactly when the "
                     "contents are equal - the diff relies on it to skip unchanged objects",
    "round-writes": "the raft commands the REAL round function submitted (replicateACLType / replicateConfig / "
                    "IndexReplicator.Replicate through leaderRaftApply on a real single-node raft) delete exactly the diff's "
                    "deletions and upsert exactly its upserts, every id once, all accepted",
    "index-honest": "the index the real round handed back is honest: every object the primary listed with a modify index up to it "
                    "has the primary's content in the secondary afterwards (the next round's Consistent assumption)",
    "no-stale-body": "every replicated object after the round has the content it had before or the listed (current) one - never "
                     "the older body a lagging server of the primary returned for the batch read",
    "next-round-converges": "after a round whose batch read was stale, the next fault-free REAL round (started from the index "
                            "handed back, or the old one after an error) makes the secondary equal to the primary",
    "stale-fetch": "fold of index-honest / no-stale-body / next-round-converges for a round with a fetch fault",
    "fed-primary-index": "a federation state written by the round remembers the primary's modify index it was copied at",
    "apply-ok": "every raft command built from the diff was accepted by the real FSM / state store",
    "apply-model": "the spec's ApplyDiff(pre, dels, ups, remote) equals the real store's post state (content view)",
    "env": "NOT a verdict: the harness fed an input outside the environment assumption (infrastructure error)",
}
PREDS = set(PRED_DOC) - {"env"}
SLIM = ("typ", "kind", "last", "pre", "inL", "inR", "dels", "ups", "lskip", "rskip", "post", "err", "writes", "cmds",
        "pidx", "ridx", "fault", "err2", "post2")
SHOW = SLIM + ("errclass", "errmsg")

ASSUMPTIONS = [
    "TLC evaluates spec/ReplDiff.tla, ReplDiffMC.tla, ReplDiffTrace.tla correctly",
    "Consistent(local, remote, lastRemoteIndex): an object on both sides whose remote modify index is <= lastRemoteIndex "
    "already has the remote content (that is what a lastRemoteIndex returned by an earlier successful round means)",
    "identifiers are unique per side and identifiers of local-scoped tokens are not used by the primary (UUIDs)",
    "ACL objects with an id carry a hash (the endpoints call SetHash before the raft apply)",
    "the round is executed by the REAL round functions (Server.replicateACLPolicies/Roles/Tokens -> replicateACLType, "
    "Server.replicateConfig -> reconcileLocalConfig, IndexReplicator.Replicate over FederationStateReplicator) on a *Server that has "
    "only fsm, a real single-node in-memory raft (leaderRaftApply unchanged), config, token store and an in-process RPC server whose "
    "ACL / ConfigEntry / FederationState receivers stand in for the PRIMARY's list and batch-read endpoints over a real primary "
    "state.Store; apply limits are set to 10^6/s; the diff itself is additionally recorded by a direct call of the real diff function "
    "on the same stores",
    "names of ACL policies and roles are unique within each datacenter",
    "content classes are computed by the harness as a digest of the real object's JSON form without hash and raft indexes",
]


ALL = ("acl", "config", "fed")


def cfg_text(mode, kinds, ids, mis, lasts, legl=0, legr=0, lo=(), unhashed=False, perms=False, legcs=(1,), runok=True,
             ridxs=None, faults=False):
    # ridxs: indexes the primary answers with; default = never below lastRemoteIndex
    ridxs = ridxs or (max(max(mis), max(lasts)),)
    s = lambda xs: "{" + ", ".join(str(x) for x in xs) + "}"
    b = lambda v: "TRUE" if v else "FALSE"
    head = ("SPECIFICATION Spec\nCONSTANTS\n  Kinds = {%s}\n  Ids = %s\n  Cs = {1, 7}\n  LegacyCs = %s\n  Mis = %s\n  Lasts = %s\n"
            "  MaxLegacyL = %d\n  MaxLegacyR = %d\n  LoIds = %s\n  Unhashed = %s\n  Perms = %s\n  RIdxs = %s\n  Faults = %s\n  OldCs = {2}\n") % (
        ", ".join('"%s"' % k for k in kinds), s(ids), s(legcs), s(mis), s(lasts), legl, legr, s(lo), b(unhashed), b(perms),
        s(ridxs), b(faults))
    if mode == "mc":
        return head + ("INVARIANTS InvEnv InvCursor InvSorted InvRoundOK%s\nPROPERTIES PropTerminates PropInputsStable\n"
                       "CHECK_DEADLOCK TRUE\n") % (" InvRunOK" if runok else "")
    return head + "CONSTRAINT OnlyFirstStep\nPROPERTIES EmitProp\nCHECK_DEADLOCK FALSE\n"


# (name, constants) ; sizes fitted to measured state counts (see evidence model_check).
# legacy entries and local-only objects exist for kind acl only, unhashed entries for kind config only.
MC = {
    "quick": [
        ("all-3ids", dict(kinds=ALL, ids=(1, 2, 3), mis=(1, 2), lasts=(0, 1))),
        ("legacy-localonly-unhashed", dict(kinds=("acl", "config"), ids=(1, 2), mis=(1, 2), lasts=(0, 1), legl=1, legr=1,
                                           lo=(2, 3), unhashed=True, legcs=(1, 2))),
        # lastRemoteIndex 3 > the primary's index 2: it went backwards; fetch faults of ACL rounds
        ("backwards-and-stale-fetch", dict(kinds=ALL, ids=(1, 2), mis=(1, 2), lasts=(0, 1, 3), ridxs=(2,), faults=True)),
    ],
    "thorough": [
        ("backwards-and-stale-fetch", dict(kinds=ALL, ids=(1, 2, 3), mis=(1, 2), lasts=(1, 3), ridxs=(2,), faults=True)),
        ("acl-4ids", dict(kinds=("acl",), ids=(1, 2, 3, 4), mis=(1, 2, 3), lasts=(0, 1, 2, 3), runok=False)),
        ("config-fed-3ids", dict(kinds=("config", "fed"), ids=(1, 2, 3), mis=(1, 2), lasts=(0, 1, 2))),
        ("legacy-localonly-unhashed", dict(kinds=("acl", "config"), ids=(1, 2, 3), mis=(1, 2), lasts=(1,), legl=1, legr=1,
                                           lo=(2, 4), unhashed=True, legcs=(1, 2))),
        ("all-arrival-orders", dict(kinds=("acl", "config"), ids=(1, 2, 3), mis=(1, 2), lasts=(1,), perms=True)),
    ],
}

# (name, constants): every initial state of the configuration becomes one executed case. acl cases are executed
# round-robin as policies / roles / tokens (cases with local-only objects: tokens).
GEN = {
    "quick": [
        ("all-3ids", dict(kinds=ALL, ids=(1, 2, 3), mis=(1, 2), lasts=(1,))),
        ("legacy-localonly-unhashed", dict(kinds=("acl", "config"), ids=(1, 2), mis=(1, 2), lasts=(0, 1), legl=1, legr=1,
                                           lo=(3,), unhashed=True)),
        ("backwards", dict(kinds=ALL, ids=(1, 2), mis=(1, 2), lasts=(3,), ridxs=(2,))),
        ("stale-fetch", dict(kinds=("acl",), ids=(1, 2), mis=(1, 2), lasts=(0, 1), ridxs=(2,), faults=True)),
    ],
    "thorough": [
        ("backwards", dict(kinds=ALL, ids=(1, 2, 3), mis=(1, 2), lasts=(3,), ridxs=(2,))),
        ("stale-fetch", dict(kinds=("acl",), ids=(1, 2, 3), mis=(1, 2), lasts=(1,), ridxs=(2,), faults=True)),
        ("all-3ids", dict(kinds=ALL, ids=(1, 2, 3), mis=(1, 2), lasts=(0, 1, 2))),
        ("acl-3ids-full", dict(kinds=("acl",), ids=(1, 2, 3), mis=(1, 2, 3), lasts=(0, 1, 2, 3))),
        ("acl-4ids", dict(kinds=("acl",), ids=(1, 2, 3, 4), mis=(1, 2), lasts=(1,))),
        ("acl-legacy-localonly", dict(kinds=("acl",), ids=(1, 2, 3), mis=(1, 2), lasts=(1,), legl=1, legr=1, lo=(2, 4))),
        ("config-unhashed", dict(kinds=("config",), ids=(2, 3), mis=(1, 2), lasts=(0, 1), unhashed=True)),
    ],
}
RANDOM = {"quick": (1500, 12), "thorough": (20000, 12)}
CHUNK = 30000
ACL_TYPES = ("policy", "role", "token")
CONFIG_IDS = {1: 1, 2: 2, 3: 8, 4: 9}   # proxy-defaults/global, service-defaults/a, service-resolver/a, service-resolver/b


def typ_for(c, i):
    if c["kind"] != "acl":
        return c["kind"]
    if any(o["lo"] for o in c["sec"]):
        return "token"
    if c.get("fault", {}).get("t", "none") != "none":
        return ("policy", "token")[i % 2]     # role rounds have no batch read: the bodies come with the listing
    return ACL_TYPES[i % 3]


def shuffled_case(c, typ, rng):
    """TLC prints the listings in one arbitrary order; every list is shuffled (seeded) because the real
    code has to sort both sides itself."""
    c = dict(c)
    c["typ"] = typ
    for k in ("sec", "inL", "inR"):
        c[k] = [dict(o) for o in c[k]]
        if typ == "config":   # monotone renaming so that the model's ids span the three config entry kinds of the harness universe
            for o in c[k]:
                o["id"] = CONFIG_IDS[o["id"]]
        rng.shuffle(c[k])
    c["order"] = "given" if rng.random() < 0.5 else "store"
    c["seed"] = rng.getrandbits(62)
    c["back"] = c.get("ridx", c["last"]) < c["last"]      # the primary's index went backwards
    c.setdefault("fault", {"t": "none", "id": 0, "oc": 0, "mod": False})
    return c


# predicates about the state after the round: when a write was rejected ("apply-ok" fails) they fail as a mere
# consequence and are folded into the apply-ok violation of that round
POST_PREDS = {"post-equals-remote", "apply-model", "others-untouched", "local-only-untouched", "equal-no-writes"}


# when two different contents of one object carry the same hash the diff necessarily skips the object: these predicates
# fail as a consequence and are folded into the hash-faithful violation of that round
HASH_CONSEQ = {"diff-sound", "post-equals-remote", "equal-no-writes"}


# a round whose batch read was answered by a lagging server: all of these say "the stale / missing body got through";
# they are folded into one violation  C19:stale-fetch:<type>/<shape of the fault>
FAULT_PREDS = {"index-honest", "no-stale-body", "next-round-converges"}
FAULT_CONSEQ = FAULT_PREDS | {"post-equals-remote", "apply-ok", "round-writes", "diff-sound", "apply-model", "others-untouched"}


def fold(row, names):
    """predicate names of one rejected round -> names that become violations"""
    names = [n for n in names if n in PREDS]
    if row.get("shape", "none") != "none" and FAULT_PREDS & set(names):
        return ["stale-fetch"] + [n for n in names if n not in FAULT_CONSEQ]
    return [n for n in names if not ((row["err"] != "none" and n in POST_PREDS) or ("hash-faithful" in names and n in HASH_CONSEQ))]


def ev_sig(row, pred):
    """<id>:<predicate>:<object type>[/<class of the rejected write>]"""
    if pred == "stale-fetch":
        return "%s:stale-fetch:%s/%s" % (PID, row["typ"], row["shape"])
    feat = ("/" + row.get("errclass", "other")) if (pred == "apply-ok" and row["err"] != "none") else ""
    return "%s:%s:%s%s" % (PID, pred, row["typ"], feat)


def nontrivial_key(row):
    """a round is non-trivial when the diff had to decide something beyond 'both sides empty': key = the whole
    abstract input + the diff"""
    if not row["inL"] and not row["inR"]:
        return None
    norm = lambda l: tuple(sorted((o["id"], o["c"], o["h"] != 0, o["lo"]) for o in l))
    rem = tuple(sorted((o["id"], o["c"], o["h"] != 0, o["mi"] > row["last"]) for o in row["inR"]))
    return (row["typ"], norm(row["pre"]), norm(row["inL"]), rem, tuple(sorted(row["dels"])), tuple(sorted(row["ups"])))


def stats_of(rows, st):
    for r in rows:
        L = {o["id"]: o for o in r["inL"] if o["id"] != 0}
        R = {o["id"]: o for o in r["inR"] if o["id"] != 0}
        st["rounds"] += 1
        st["deletes"] += bool(r["dels"])
        st["upserts_new"] += any(i not in L for i in r["ups"])
        st["upserts_changed"] += any(i in L for i in r["ups"])
        st["skip_by_index"] += any(i in L and R[i]["mi"] <= r["last"] for i in R)
        st["skip_by_hash"] += any(i in L and R[i]["mi"] > r["last"] and i not in r["ups"] for i in R)
        st["legacy_local"] += any(o["id"] == 0 for o in r["inL"])
        st["legacy_remote"] += any(o["id"] == 0 for o in r["inR"])
        st["local_only"] += any(o["lo"] for o in r["pre"])
        st["unhashed"] += any(o["h"] == 0 and r["kind"] == "config" for o in r["inL"] + r["inR"])
        same = ({(i, o["c"]) for i, o in L.items()} == {(i, o["c"]) for i, o in R.items()}) and (L or R)
        st["already_equal"] += bool(same and r["kind"] != "fed" and all(o["h"] != 0 for o in list(L.values()) + list(R.values())))
        st["local_run_at_end"] += bool(L and R and max(L) > max(R))
        st["remote_run_at_end"] += bool(L and R and max(R) > max(L))
        st["empty_local"] += bool(R and not L)
        st["empty_remote"] += bool(L and not R)
        # a deleted object and an upserted one need the same unique name (content 7 of policies / roles)
        # the primary's index went backwards: full comparison forced
        back = r["pidx"] < r["last"]
        st["index_backwards"] += back
        st["index_backwards_fed_lower_than_recorded"] += bool(back and r["typ"] == "fed" and any(
            i in R and R[i]["c"] != o["c"] and R[i]["mi"] <= o["pmi"] for i, o in L.items()))
        # fetch faults: the faulted object is one of the upserts
        hitf = r["shape"] != "none" and r["fault"]["id"] in r["ups"]
        st["fetch_fault_hit"] += hitf
        st["fetch_fault_policy_stale"] += bool(hitf and r["typ"] == "policy" and r["shape"] == "stale")
        st["fetch_fault_policy_omit_new"] += bool(hitf and r["typ"] == "policy" and r["shape"] == "omit-new")
        st["fetch_fault_rejected_by_round"] += bool(hitf and r["err"] != "none")
        st["fetch_fault_not_hit"] += bool(r["shape"] != "none" and not hitf)
        st["name_reused_by_create"] += bool(r["typ"] in ("policy", "role") and any(L[i]["c"] == 7 for i in r["dels"] if i in L)
                                            and any(R[i]["c"] == 7 for i in r["ups"] if i in R))


def validate_chunks(paths):
    """TLC validation of several trace files, two JVMs at a time. Returns {path: TLCResult}."""
    out, errs = {}, []
    sem = threading.Semaphore(2)

    def one(p, n):
        with sem:
            try:
                out[p] = vf.tlc_validate("ReplDiffTrace", "ReplDiffTrace.cfg", p, nevents=n, timeout=3000, heap="6g")
            except Exception as ex:  # noqa
                errs.append(ex)
    ths = [threading.Thread(target=one, args=(p, n)) for p, n in paths]
    for t in ths:
        t.start()
    for t in ths:
        t.join()
    if errs:
        raise errs[0]
    return out


def judge(tagged, work, verdict, pred_hits):
    """tagged: [(source, full event)]. Writes slim chunks, lets TLC judge them (two JVMs side by side), feeds the verdict."""
    for source, r in tagged:
        if r["err"] == "setup":
            raise vf.Infra("harness could not set up a case (%s): %s case=%s" % (source, r["errmsg"], json.dumps(r["case"])))
    size = max(2000, min(CHUNK, (len(tagged) + 1) // 2))
    chunks = []
    for i in range(0, len(tagged), size):
        p = os.path.join(work, "slim-%d.ndjson" % i)
        part = tagged[i:i + size]
        vf.write_ndjson(p, [{k: r[k] for k in SLIM} for _, r in part])
        chunks.append((p, len(part), i))
    res = validate_chunks([(p, n) for p, n, _ in chunks])
    for p, n, base in chunks:
        for line, names in res[p].rejects:
            source, row = tagged[base + line - 1]
            if "env" in names:
                raise vf.Infra("input outside the environment assumption (%s): %s" % (source, json.dumps(row["case"])))
            for nm in fold(row, names):
                pred_hits[nm] = pred_hits.get(nm, 0) + 1
                verdict.add(ev_sig(row, nm),
                            "predicate %s rejected by TLC (%s): typ=%s last=%d inL=%s inR=%s dels=%s ups=%s post=%s err=%s %s" % (
                                nm, source, row["typ"], row["last"], json.dumps(row["inL"]), json.dumps(row["inR"]),
                                row["dels"], row["ups"], json.dumps(row["post"]), row["err"], row["errmsg"][:160]),
                            {"kind": "repl-case", "case": row["case"], "predicate": nm})


def run_mc(tier, configs, out, errs):
    try:
        for name, kw in configs:
            r = vf.tlc_mc("ReplDiffMC", "mc.cfg", files={"mc.cfg": cfg_text("mc", **kw)}, timeout=3600, heap="8g",
                          workers=min(8 if tier == "thorough" else 4, vf.NCPU), coverage=(tier == "thorough"))
            out.append({"config": name, "constants": {k: (list(v) if isinstance(v, tuple) else v) for k, v in kw.items()},
                        "distinct": r.distinct, "generated": r.generated, "depth": r.depth, "wall_s": round(r.wall, 1),
                        "coverage_zero": sorted(set(r.coverage_zero))})
    except Exception as ex:  # noqa
        errs.append(ex)


def run(tier):
    t0 = time.time()
    seed = vf.seed()
    rng = random.Random(seed)
    binary = vf.build("h-repl")
    work = vf.new_scratch("verif-%s-" % PID)
    verdict = vf.Verdict(PID)
    pred_hits, samples, nontrivial = {}, [], set()
    stats = {k: 0 for k in ("rounds", "deletes", "upserts_new", "upserts_changed", "skip_by_index", "skip_by_hash", "legacy_local",
                            "legacy_remote", "local_only", "unhashed", "already_equal", "local_run_at_end", "remote_run_at_end",
                            "empty_local", "empty_remote", "name_reused_by_create",
                            "index_backwards", "index_backwards_fed_lower_than_recorded", "fetch_fault_hit", "fetch_fault_policy_stale",
                            "fetch_fault_policy_omit_new", "fetch_fault_rejected_by_round", "fetch_fault_not_hit")}
    cov = {"mc": [], "gen": [], "random": {}}
    n_cases = 0
    tagged = []
    try:
        mc_errs = []
        # quick: the (small) exhaustive runs side by side; thorough: the 4-id run next to the three others
        # (computing initial states is single-threaded in TLC, so two JVMs overlap well)
        groups = [[m] for m in MC[tier]] if tier == "quick" else [MC[tier][:1], MC[tier][1:]]
        mc_threads = [threading.Thread(target=run_mc, args=(tier, g, cov["mc"], mc_errs)) for g in groups]
        for t in mc_threads:
            t.start()
        # --- replay of TLC-generated inputs
        def do_gen(item):
            name, kw = item
            g = vf.tlc_gen("ReplDiffMC", "gen.cfg", files={"gen.cfg": cfg_text("gen", **kw)}, timeout=1800, heap="6g")
            grng = random.Random("%d/%s" % (seed, name))
            cases = [shuffled_case(c, typ_for(c, i), grng) for i, c in enumerate(g.traces)]
            cf = os.path.join(work, "cases-%s.json" % name)
            with open(cf, "w") as f:
                json.dump(cases, f)
            tp = os.path.join(work, "gen-%s.ndjson" % name)
            p = vf.run_harness(binary, ["replay", "-in", cf, "-out", tp])
            if p.returncode != 0:
                raise vf.Infra("h-repl replay failed: %s" % p.stderr[-2000:])
            rows = vf.read_ndjson(tp)
            if len(rows) != len(cases):
                raise vf.Infra("h-repl recorded %d of %d cases" % (len(rows), len(cases)))
            return name, kw, len(g.traces), cases, rows

        with ThreadPoolExecutor(max_workers=2) as pool:
            gen_results = list(pool.map(do_gen, GEN[tier]))
        for name, kw, n_init, cases, rows in gen_results:
            tagged.extend(("gen:" + name, r) for r in rows)
            bytyp = {}
            for c in cases:
                bytyp[c["typ"]] = bytyp.get(c["typ"], 0) + 1
            cov["gen"].append({"config": name, "tlc_initial_states": n_init, "cases_executed": len(cases), "by_type": bytyp,
                               "constants": {k: (list(v) if isinstance(v, tuple) else v) for k, v in kw.items()}})
            n_cases += len(rows)
            stats_of(rows, stats)
            for r in rows:
                k = nontrivial_key(r)
                if k is not None:
                    nontrivial.add(k)
            pick = [r for r in rows if r["dels"] and r["ups"]][:1] or rows[:1]
            for r in pick[:1]:
                if len(samples) < 6:
                    samples.append({"source": "gen:" + name, **{k: r[k] for k in SLIM}, "accepted_by_tlc": True})
        # --- seeded random rounds over a larger universe
        n, mx = RANDOM[tier]
        tp = os.path.join(work, "rnd.ndjson")
        p = vf.run_harness(binary, ["random", "-seed", str(seed), "-n", str(n), "-max", str(mx), "-out", tp])
        if p.returncode != 0:
            raise vf.Infra("h-repl random failed: %s" % p.stderr[-2000:])
        rows = vf.read_ndjson(tp)
        tagged.extend(("random", r) for r in rows)
        judge(tagged, work, verdict, pred_hits)
        cov["random"] = {"cases": len(rows), "seed": seed, "max_objects": mx}
        n_cases += len(rows)
        stats_of(rows, stats)
        for r in rows:
            k = nontrivial_key(r)
            if k is not None:
                nontrivial.add(k)
        big = sorted(rows, key=lambda r: -(len(r["inL"]) + len(r["inR"])))[:1]
        for r in big:
            samples.append({"source": "random", **{k: r[k] for k in SLIM}, "accepted_by_tlc": True})
        for t in mc_threads:
            t.join()
        if tier == "thorough" and not mc_errs:
            # the order of the round matters in the model: "upserts before deletions" must NOT be always accepted
            w = vf.tlc("ReplDiffMC", "w.cfg", workers=4, timeout=900, files={"w.cfg": cfg_text(
                "mc", kinds=("acl",), ids=(1, 2), mis=(1,), lasts=(0,)).replace("InvRoundOK", "InvRoundOK InvUpsertsFirstAlsoFine")})
            cov["order_witness"] = {"invariant": "InvUpsertsFirstAlsoFine", "violated_as_expected": w.violated == "InvUpsertsFirstAlsoFine"}
            if w.violated != "InvUpsertsFirstAlsoFine":
                raise vf.Infra("vacuous: the model does not distinguish deletions-first from upserts-first (%s)" % w.violated)
        if mc_errs:
            raise mc_errs[0]
        # --- vacuity
        zero = [k for k, v in stats.items() if v == 0]
        if zero:
            raise vf.Infra("vacuous: no executed round exercised %s" % zero)
        if tier == "thorough":
            cz = sorted({z for m in cov["mc"] for z in m["coverage_zero"]} - {"Emit", "EmitProp", "Case", "OnlyFirstStep"})
            never_everywhere = [z for z in cz if all(z in m["coverage_zero"] for m in cov["mc"])]
            if [z for z in never_everywhere if z in ("MergeStep", "DrainLocalStep", "DrainRemoteStep", "Step", "Next")]:
                raise vf.Infra("vacuous: actions never taken in any model-checking run: %s" % never_everywhere)
        n_new = verdict.finish()
        coverage = {
            "states": sum(m["distinct"] for m in cov["mc"]), "transitions": sum(m["generated"] for m in cov["mc"]),
            "traces_validated_against_impl": n_cases,
            "evaluations": n_cases,
            "distinct_nontrivial": len(nontrivial),
            "rule": "one case = one replication round (secondary store, primary store, lastRemoteIndex) executed through the real diff "
                    "and the real FSM and judged by TLC. Cases are every initial state of the bounded model ReplDiffMC (gen configs "
                    "below, listings shuffled with the seed) plus seeded random rounds over 12-13 ids / 6 contents. distinct_nontrivial "
                    "counts distinct (type, abstract secondary, listings with content/hash-presence/newer-than-last flags, diff) tuples "
                    "with at least one listed object",
            "samples": samples,
            "model_check": cov["mc"], "generation": cov["gen"], "random": cov["random"],
            "exercised": stats, "order_witness": cov.get("order_witness"),
            "predicates": sorted(PREDS), "predicate_doc": PRED_DOC,
            "rejected_steps_by_predicate": pred_hits,
            "known_findings_matched": verdict.known_hit,
            "exhaustive": False,
        }
        vf.write_evidence(PID, tier, "model_checking", coverage, ASSUMPTIONS, time.time() - t0, n_new)
        return 1 if n_new else 0
    finally:
        shutil.rmtree(work, ignore_errors=True)


def _run_cases(cases, extra_args=()):
    binary = vf.build("h-repl")
    work = vf.new_scratch("verif-%s-replay-" % PID)
    try:
        cf = os.path.join(work, "cases.json")
        json.dump(cases, open(cf, "w"))
        tp = os.path.join(work, "t.ndjson")
        p = vf.run_harness(binary, ["replay", "-in", cf, "-out", tp] + list(extra_args))
        if p.returncode != 0:
            raise vf.Infra(p.stderr[-2000:])
        rows = vf.read_ndjson(tp)
        return rows
    finally:
        shutil.rmtree(work, ignore_errors=True)


def _validate_rows(rows):
    work = vf.new_scratch("verif-%s-val-" % PID)
    try:
        sp = os.path.join(work, "slim.ndjson")
        vf.write_ndjson(sp, [{k: r[k] for k in SLIM} for r in rows])
        return vf.tlc_validate("ReplDiffTrace", "ReplDiffTrace.cfg", sp, nevents=len(rows))
    finally:
        shutil.rmtree(work, ignore_errors=True)


def replay(path):
    rp = json.load(open(path))
    case = rp["replay"]["case"]
    rows = _run_cases([case])
    r = _validate_rows(rows)
    bad = 0
    for line, names in r.rejects:
        row = rows[line - 1]
        for nm in fold(row, names):
            print("round rejected: %s  typ=%s last=%d inL=%s inR=%s dels=%s ups=%s post=%s err=%s %s" % (
                nm, row["typ"], row["last"], json.dumps(row["inL"]), json.dumps(row["inR"]), row["dels"], row["ups"],
                json.dumps(row["post"]), row["err"], row["errmsg"]))
            bad += nm in PREDS
    if bad:
        print("VIOLATION property=%s replay=%s" % (PID, path))
        return 1
    print("replay accepted: round conforms (dels=%s ups=%s)" % (rows[0]["dels"], rows[0]["ups"]))
    return 0


def selftest():
    """Binding demonstration: (i) corrupt recorded fields of good rounds, (ii) perturb the real diff's result
    inside the harness (-perturb); TLC must reject both."""
    cases = [
        {"typ": t, "kind": k, "last": 1, "order": "store",
         "sec": [{"id": 1, "mi": 1, "c": 1, "h": 1, "lo": False}, {"id": 2, "mi": 1, "c": 1, "h": 1, "lo": False}],
         "inL": [],
         "inR": [{"id": 2, "mi": 2, "c": 2, "h": 2, "lo": False}, {"id": 8, "mi": 1, "c": 1, "h": 1, "lo": False}]}
        for t, k in (("policy", "acl"), ("role", "acl"), ("token", "acl"), ("config", "config"), ("fed", "fed"))]
    rows = _run_cases(cases)
    ok = not _validate_rows(rows).rejects
    print("selftest: unmodified rounds accepted: %s" % ok)
    res = {"clean_accepted": ok}
    import copy
    mut = copy.deepcopy(rows)
    mut[0]["ups"] = mut[0]["ups"][:-1]                       # recorded diff loses an upsert
    mut[1]["post"] = [o for o in mut[1]["post"] if o["id"] != 8]   # recorded post state loses an object
    mut[2]["dels"] = []                                       # recorded diff loses the deletion
    mut[3]["post"][0]["c"] = 2 if mut[3]["post"][0]["c"] == 1 else 1  # recorded content differs
    mut[4]["ups"] = mut[4]["ups"] + [1]                       # recorded diff upserts a deleted id
    rej = {line: names for line, names in _validate_rows(mut).rejects}
    print("selftest: corrupted recordings rejected: %s" % rej)
    res["corrupted_rejected"] = {str(k): v for k, v in rej.items()}
    ok = ok and len(rej) == 5
    for pert in ("drop-upsert", "drop-delete"):
        prow = _run_cases(cases, ["-perturb", pert])
        rej = {line: names for line, names in _validate_rows(prow).rejects}
        print("selftest: real diff perturbed with %s -> rejected rounds: %s" % (pert, rej))
        res["perturb-" + pert] = {str(k): v for k, v in rej.items()}
        ok = ok and len(rej) == 5
    os.makedirs(os.path.join(vf.VERIF, "evidence", "selftest"), exist_ok=True)
    json.dump(res, open(os.path.join(vf.VERIF, "evidence", "selftest", PID + ".json"), "w"), indent=1, sort_keys=True)
    print("selftest %s" % ("PASSED" if ok else "FAILED"))
    return 0 if ok else 2
