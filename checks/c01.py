"""C01 - replicas that apply the same committed log hold the same state (spec/Replicas.tla)."""
from checks import fsmfam

PREDS = {"results-agree", "state-agree"}
DOC = {
    "results-agree": "every replica returned the same value from fsm.Apply for the entry (errors compared as a class: the text of an "
                     "error may name whichever offending object a map iteration met first)",
    "state-agree": "after the entry, the canonical dump of EVERY row of EVERY memdb table, including the index table, is byte-identical "
                   "on all replicas (two in-process replicas and one replica in a separate OS process with GOMAXPROCS=1, another time "
                   "zone, started later)",
}


def run(tier):
    return fsmfam.run_fsm(
        "C01", tier, "c01", preds=PREDS, doc=DOC,
        mc={"quick": {"MaxLog": 2}, "thorough": {"MaxLog": 3}},
        params={"quick": [dict(n=12, len=150, mix="rotate")], "thorough": [dict(n=150, len=250, mix="rotate")]},
        assumptions=["not replicated by design and therefore not compared: the lock-delay map (wall clock, leader only), tombstone GC hints",
                     "both replicas run the same binary on the same host (process-global inputs such as dual-stack detection are equal)",
                     "TLC evaluates spec/ReplicasTrace.tla correctly"])


def replay(path):
    return fsmfam.replay_fsm("C01", path, "c01", PREDS)
