"""C18 - resource store: version CAS, stable UIDs, ordered watches.

spec/ResourceStore.tla       sequential specification (WriteCAS / DeleteCAS / Read / List / ListByOwner /
                             Snapshot / Restore / watches) and the property predicates
spec/ResourceStoreMC.tla     bounded exhaustive exploration of that specification (model level)
spec/ResourceStoreTrace.tla  binding (TV, recorded concurrency): TLC searches a linearization of every history
                             recorded by harness/cmd/h-res from the REAL backends (inmem.Backend, inmem.Store,
                             raft.Backend over a real single-node hashicorp/raft) driven by 4..8 goroutines + watchers
                             under the race detector, with snapshot/restore in the middle.

The verdict is TLC's: a history whose search is exhausted without reaching its end is a violation; relaxed
re-runs of that single history (Relax constant) only NAME the violated predicate.
"""
import concurrent.futures as cf
import json
import os
import re
import shutil
import time

import vf

PID = "C18"
TRACE_CFG = "SPECIFICATION Spec\nCONSTANTS\n  Relax = {%s}\nPOSTCONDITION Post\nCHECK_DEADLOCK FALSE\n"

# diagnosis: (relaxations switched off together, predicate name), tried in this order
WATCH_ALL = ("watch-order", "watch-listing", "watch-done", "read-after-event")
RELAX = [
    (("watch-order-xrestore",), "WatchOrdered.pre-restore-event"),
    (("watch-order-dup",), "WatchOrdered.repeated-or-stale-event"),
    (("watch-order", "watch-done"), "WatchOrdered"),
    (("watch-listing",), "WatchListingComplete"),
    (("watch-done",), "WatchComplete"),
    (("read-after-event",), "ReadAfterEventMonotone"),
    (WATCH_ALL, "Watch.several"),
    (WATCH_ALL + ("read",), "Linearizable-read"),
    (WATCH_ALL + ("list",), "Linearizable-list"),
    (WATCH_ALL + ("listowner",), "Linearizable-listowner"),
    (WATCH_ALL + ("snapshot",), "Linearizable-snapshot"),
]
DOC = {
    "Linearizable": "the recorded concurrent history of WriteCAS/DeleteCAS (+reads) has a linearization accepted by "
                    "ResourceStore!Apply: ok iff (absent and version \"\") or (same uid and stored version = presented), "
                    "CASFailure / WrongUid classes otherwise, DeleteCAS no-op when absent or other uid; this contains "
                    "OneWinnerPerVersion, UidStablePerLifetime and StaleCannotTouchNewLifetime for every schedule recorded",
    "OneWinnerPerVersion": "directly on the recorded history: no two successful writes presented the same non-empty version "
                           "of one name (unless a restore can lie between them)",
    "UidStablePerLifetime": "directly on the recorded history: the write producing version v and the write replacing v carry "
                            "the same uid; a write returns the uid it was given",
    "VersionsFresh": "one name never receives the same version from two writes",
    "WatchListingComplete": "the initial listing of a watch equals the matching part of the state at some position of the chosen log",
    "WatchOrdered.pre-restore-event": "WatchOrdered, narrowed: the offending live event repeats a log entry from BEFORE a restore "
                                      "that precedes the watcher's position (an event of the abandoned timeline)",
    "WatchOrdered.repeated-or-stale-event": "WatchOrdered, narrowed: the offending live event repeats an entry at or before the "
                                            "watcher's position in the same epoch",
    "WatchOrdered": "every live event is the next entry of its resource's log after the watcher's position: commit order, "
                    "nothing skipped, repeated or stale, never across a restore",
    "WatchComplete": "after the final (fence) writes the watcher has been told every event of every matching resource",
    "ReadAfterEventMonotone": "the Read made right after receiving an event returns that resource's state at the event's log "
                              "position or a later one",
    "Linearizable-read/list/listowner/snapshot": "the named read-only call is the one that has no linearization point",
}
ASSUMPTIONS = [
    "TLC evaluates spec/ResourceStoreTrace.tla correctly; its pruning (just-in-time Lin steps, latest listing position) loses no linearization",
    "the process-wide atomic counter orders log points consistently with real time (invoke point before the call, return point after it)",
    "all reads are judged as linearizable (stronger than the EventualConsistency contract; true for inmem and for a single-node Raft leader)",
    "mutating calls are held back while a restore runs (what Raft's FSM goroutine does); reads and watchers keep running",
    "raft backend = storage/raft.Backend on a real single-node hashicorp/raft with in-memory stores; follower forwarding is not exercised",
    "a watcher stops after it has seen the final fence write of every tenancy its query matches (relies on per-subscription delivery order only to decide WHEN to stop)",
]


def kind_of(ev):
    e = ev.get("e")
    if e == "ret":
        return "ret"
    if e == "wev":
        return "wev"
    return e or "?"


def split_histories(rows):
    out, cur = [], None
    for r in rows:
        if r.get("e") == "reset":
            cur = [r]
            out.append(cur)
        else:
            cur.append(r)
    return out


def run_tlc(rows, relax=(), timeout=900, coverage=False):
    text = "".join(json.dumps(r, separators=(",", ":"), sort_keys=True) + "\n" for r in rows)
    cfg = TRACE_CFG % ", ".join('"%s"' % x for x in relax)
    r = vf.tlc("ResourceStoreTrace", "rt.cfg", workers=1, timeout=timeout, deque=True, heap="4g",
               files={"trace.ndjson": text, "rt.cfg": cfg}, quiet=True, coverage=coverage)
    if r.rc != 0:
        raise vf.Infra("ResourceStoreTrace failed rc=%s (not a verdict)\n%s" % (r.rc, r.out[-3000:]))
    acc = set(int(x) for x in re.findall(r'<<"ACCEPT", (\d+)>>', r.out))
    alldone = '<<"ALLDONE"' in r.out
    m = re.search(r'<<"HWM", (\d+)>>', r.out)
    hwm = int(m.group(1)) if m else None
    return r, acc, alldone, hwm


def validate(rows, timeout=900):
    """TLC decides every history in rows. Returns (accepted ids, failures, static rejects, distinct states)."""
    hs = split_histories(rows)
    accepted, failures, statics, states = [], [], [], 0
    i = 0
    while i < len(hs):
        batch = [e for h in hs[i:] for e in h]
        r, acc, alldone, hwm = run_tlc(batch, timeout=timeout)
        states += r.distinct
        for line, names in r.rejects:
            hdr = batch[line - 1]
            statics.append((hdr["h"], names))
        if alldone:
            accepted += [h[0]["h"] for h in hs[i:]]
            break
        if hwm is None:
            raise vf.Infra("ResourceStoreTrace printed neither ALLDONE nor HWM\n%s" % r.out[-2000:])
        # the history containing the first event TLC could not consume
        pos, j = 0, i
        while j < len(hs) and pos + len(hs[j]) < hwm:
            pos += len(hs[j])
            j += 1
        if j >= len(hs):
            raise vf.Infra("HWM %d beyond the trace (%d events) without ALLDONE" % (hwm, len(batch)))
        for k in range(i, j):
            if hs[k][0]["h"] not in acc:
                raise vf.Infra("history %s before the high-water mark was not accepted" % hs[k][0]["h"])
            accepted.append(hs[k][0]["h"])
        stuck = hs[j][hwm - pos - 1]
        failures.append({"h": hs[j][0]["h"], "events": hs[j], "stuck": stuck, "stuck_index": hwm - pos})
        i = j + 1
    return accepted, failures, statics, states


def diagnose(events):
    """Name the predicate a rejected history violates: the first relaxation under which TLC accepts it.
    (an accepting relaxed run has checked everything else in the history)"""
    for rl, name in RELAX:
        _, _, alldone, _ = run_tlc(events, relax=rl)
        if alldone:
            return name
    return "Linearizable"


def confirm_unpruned(events, timeout=600):
    """Safeguard against an unsound search reduction: re-decide a rejected history with the reductions
    switched off (Relax "full-search" only removes pruning, it relaxes no check)."""
    try:
        _, _, alldone, _ = run_tlc(events, relax=("full-search",), timeout=timeout)
    except vf.Infra as ex:
        if "timeout" in str(ex):
            return "timeout"
        raise
    return "accepted" if alldone else "rejected"


def stuck_kind(ev, events):
    if ev.get("e") == "ret":
        inv = next((x for x in events if x.get("e") == "inv" and x.get("id") == ev.get("id")), None)
        return "ret-" + (inv["op"]["t"] if inv else "?")
    return ev.get("e", "?")


def record(binary, backend, seed, n, ops, first, out):
    p = vf.run_harness(binary, ["-backend", backend, "-seed", str(seed), "-n", str(n), "-ops", str(ops),
                                "-first", str(first), "-out", out], timeout=1800, env={"GORACE": "exitcode=66"})
    if "DATA RACE" in p.stderr or p.returncode == 66:
        raise vf.Infra("race detector report while driving backend %s (infrastructure note, not a property verdict):\n%s"
                       % (backend, p.stderr[:6000]))
    if p.returncode != 0:
        raise vf.Infra("h-res %s failed rc=%d: %s" % (backend, p.returncode, p.stderr[-2000:]))
    return json.loads(p.stdout.strip().splitlines()[-1])


def contended(events):
    """history contains two overlapping calls on one name of which at least one mutated it successfully"""
    inv = [e for e in events if e.get("e") == "inv" and e["op"]["t"] in ("write", "delete")]
    for a in inv:
        if a["res"]["t"] != "ok":
            continue
        for b in inv:
            if b is not a and b["op"]["k"] == a["op"]["k"] and b["at"] < a["rat"] and a["at"] < b["rat"]:
                return True
    return False


PLAN = {
    # (backend, histories, ops per history)
    "quick": {"mc": (3, 1), "runs": [("inmem", 14, 60), ("store", 16, 64), ("raft", 8, 56)], "batch": 8, "par": 4},
    "thorough": {"mc": (4, 1), "runs": [("inmem", 150, 60), ("store", 220, 70), ("raft", 150, 56), ("store", 60, 110)], "batch": 10, "par": 6},
}


def mc_cfg(maxops, maxopens):
    s = open(os.path.join(vf.SPEC, "ResourceStore_mc.cfg")).read()
    return s.replace("MaxOps = 3", "MaxOps = %d" % maxops).replace("MaxOpens = 1", "MaxOpens = %d" % maxopens)


def run(tier):
    t0 = time.time()
    seed = vf.seed()
    plan = PLAN[tier]
    binary = vf.build("h-res", race=True)
    work = vf.new_scratch("verif-c18-")
    verdict = vf.Verdict(PID)
    try:
        # ---- E: the sequential specification satisfies its own properties (model level)
        mo, mw = plan["mc"]
        mc = vf.tlc_mc("ResourceStoreMC", "mc.cfg", files={"mc.cfg": mc_cfg(mo, mw)}, timeout=1500, heap="8g",
                       workers=min(8, vf.NCPU), coverage=(tier == "thorough"))
        mc_zero = [x for x in mc.coverage_zero if x in ("DoCmd", "OpenWatch", "Deliver")]
        if mc_zero:
            raise vf.Infra("vacuous model check: actions never taken %s" % mc_zero)

        # ---- B: record concurrent histories from the real backends (race detector on)
        jobs, first = [], 0
        tot = {"histories": 0, "events": 0, "ops": 0, "watch_events": 0, "watches": 0, "restores": 0, "classes": {}, "max_pending": 0}
        files = []
        with cf.ThreadPoolExecutor(max_workers=plan["par"]) as ex:
            futs = []
            for ri, (backend, n, ops) in enumerate(plan["runs"]):
                done = 0
                while done < n:
                    m = min(plan["batch"], n - done)
                    out = os.path.join(work, "h-%s-%d-%d.ndjson" % (backend, ri, done))
                    futs.append((out, backend, ex.submit(record, binary, backend, seed + 104729 * ri, m, ops, first, out)))
                    first += m
                    done += m
            for out, backend, f in futs:
                stx = f.result()
                files.append((out, backend))
                for k in ("histories", "events", "ops", "watch_events", "watches", "restores"):
                    tot[k] += stx[k]
                tot["max_pending"] = max(tot["max_pending"], stx["max_pending"])
                for k, v in stx["classes"].items():
                    tot["classes"][k] = tot["classes"].get(k, 0) + v

        # ---- TLC decides every history
        n_acc = n_cont = states = 0
        by_backend = {}
        samples = []
        fails = []
        with cf.ThreadPoolExecutor(max_workers=plan["par"]) as ex:
            futs = [(out, backend, vf.read_ndjson(out)) for out, backend in files]
            res = [(out, backend, rows, ex.submit(validate, rows)) for out, backend, rows in futs]
            for out, backend, rows, f in res:
                accepted, failures, statics, st = f.result()
                states += st
                n_acc += len(accepted)
                by_backend[backend] = by_backend.get(backend, 0) + len(accepted) + len(failures)
                hs = split_histories(rows)
                n_cont += sum(1 for h in hs if contended(h))
                if len(samples) < 3 and hs:
                    inv = [e for e in hs[0] if e.get("e") == "inv"]
                    wev = [e for e in hs[0] if e.get("e") == "wev" and e.get("ph") == "live"]
                    samples.append({"backend": backend, "history": hs[0][0]["h"], "goroutines": hs[0][0]["g"], "calls": len(inv),
                                    "first_call": {"op": inv[0]["op"], "result": inv[0]["res"]} if inv else None,
                                    "a_live_watch_event": wev[0] if wev else None, "accepted_by_tlc": hs[0][0]["h"] in accepted})
                for hno, names in statics:
                    ev = next(h for h in hs if h[0]["h"] == hno)
                    for nm in names:
                        verdict.add("%s:%s:write" % (PID, nm), "recorded history %d (%s) violates %s" % (hno, backend, nm),
                                    {"kind": "res-history", "backend": backend, "seed": seed, "events": ev})
                for fl in failures:
                    fails.append((backend, fl))
        for backend, fl in fails:
            pred = diagnose(fl["events"])
            sk = stuck_kind(fl["stuck"], fl["events"])
            verdict.add("%s:%s:%s" % (PID, pred, sk),
                        "history %d (%s backend): TLC finds no linearization / watch explanation past event %d %s ; violated predicate: %s"
                        % (fl["h"], backend, fl["stuck_index"], json.dumps(fl["stuck"], sort_keys=True)[:400], pred),
                        {"kind": "res-history", "backend": backend, "seed": seed, "predicate": pred, "stuck_index": fl["stuck_index"],
                         "events": fl["events"]})

        # ---- vacuity
        cl = tot["classes"]
        need = {"write/ok": cl.get("write/ok", 0), "write/err:cas": cl.get("write/err:cas", 0), "write/err:uid": cl.get("write/err:uid", 0),
                "delete/ok": cl.get("delete/ok", 0), "watch_events": tot["watch_events"], "restores": tot["restores"], "contended": n_cont}
        empty = [k for k, v in need.items() if v == 0]
        if empty:
            raise vf.Infra("vacuous run: never exercised %s" % empty)
        cov_zero = []
        if tier == "thorough" and files:
            r, _, alldone, _ = run_tlc(vf.read_ndjson(files[len(files) // 2][0]), coverage=True)
            cov_zero = [x for x in r.coverage_zero if x in ("Lin", "Inv", "Ret", "WOpen", "WEv", "WRd", "WDone", "Reset", "Finish")]
            if cov_zero:
                raise vf.Infra("vacuous trace validation: actions never taken %s" % cov_zero)

        n_new = verdict.finish()
        coverage = {
            "states": mc.distinct, "transitions": mc.generated,
            "model_check": {"MaxOps": mo, "MaxOpens": mw, "distinct": mc.distinct, "generated": mc.generated, "depth": mc.depth,
                            "invariants": ["InvCAS", "InvWatchView", "InvWatchComplete", "InvReadAfterEvent", "InvReads"],
                            "action_properties": ["PropStale", "PropOnlyCmdsChange"]},
            "traces_validated_against_impl": tot["histories"],
            "histories_accepted_by_tlc": n_acc,
            "histories_by_backend": by_backend,
            "evaluations": tot["events"],
            "calls": tot["ops"], "watch_events": tot["watch_events"], "watch_instances": tot["watches"], "restores": tot["restores"],
            "max_concurrent_pending_calls": tot["max_pending"],
            "call_result_classes": cl,
            "linearization_search_states": states,
            "distinct_nontrivial": n_cont,
            "rule": "every recorded history is decided by TLC (ResourceStoreTrace: linearization search + watch predicates); "
                    "distinct_nontrivial = number of recorded histories in which two calls on one name overlapped in real time and at "
                    "least one of them mutated it successfully (a schedule the sequential conformance suite cannot produce); every history "
                    "comes from a different seed/goroutine mix",
            "samples": samples,
            "predicates": sorted(DOC), "predicate_doc": DOC,
            "known_findings_matched": verdict.known_hit,
            "race_detector": "on (go build -race); no report",
            "exhaustive": False,
        }
        vf.write_evidence(PID, tier, "model_checking", coverage, ASSUMPTIONS, time.time() - t0, n_new)
        vf.log("[c18] histories=%d accepted=%d contended=%d events=%d mc_states=%d search_states=%d" % (
            tot["histories"], n_acc, n_cont, tot["events"], mc.distinct, states))
        return 1 if n_new else 0
    finally:
        shutil.rmtree(work, ignore_errors=True)


def replay(path):
    """The replay of a recorded concurrency violation is the recorded history itself: TLC re-decides it."""
    rp = json.load(open(path))
    ev = rp["replay"]["events"]
    accepted, failures, statics, _ = validate(ev)
    bad = 0
    for hno, names in statics:
        print("history %s: recorded history violates %s" % (hno, names))
        bad += 1
    for fl in failures:
        pred = diagnose(fl["events"])
        print("history %s rejected: no linearization past event %d %s ; predicate %s" % (
            fl["h"], fl["stuck_index"], json.dumps(fl["stuck"], sort_keys=True)[:300], pred))
        bad += 1
    if bad:
        print("VIOLATION property=%s replay=%s" % (PID, path))
        return 1
    print("replay accepted: %d events" % len(ev))
    return 0


def selftest():
    """Binding demonstration: corrupt one recorded field of a good history; TLC must reject it."""
    binary = vf.build("h-res", race=True)
    work = vf.new_scratch("verif-c18-self-")
    try:
        out = os.path.join(work, "s.ndjson")
        record(binary, "store", vf.seed(), 1, 60, 0, out)
        rows = vf.read_ndjson(out)
        acc, fl, stc, _ = validate(rows)
        if fl or stc:
            print("selftest: baseline history not accepted")
            return 2
        results = {}
        # (i) flip a CAS failure into a success
        c1 = json.loads(json.dumps(rows))
        e = next(x for x in c1 if x.get("e") == "inv" and x["op"]["t"] == "write" and x["res"]["t"] == "err")
        e["res"] = {"t": "ok", "e": "", "rs": [{"k": e["op"]["k"], "uid": e["op"]["uid"], "ver": "9999", "d": e["op"]["d"], "own": e["op"]["own"]}]}
        _, f1, _, _ = validate(c1)
        results["cas-failure-flipped-to-success"] = [diagnose(x["events"]) + ":" + stuck_kind(x["stuck"], x["events"]) for x in f1]
        # (ii) a watcher receives a stale event (previous live event repeated)
        c2 = json.loads(json.dumps(rows))
        lives = [i for i, x in enumerate(c2) if x.get("e") == "wev" and x.get("ph") == "live" and x.get("kind") in ("upsert", "delete")]
        if lives:
            c2.insert(lives[-1] + 1, dict(c2[lives[-1]]))
            _, f2, _, _ = validate(c2)
            results["watch-event-repeated"] = [diagnose(x["events"]) + ":" + stuck_kind(x["stuck"], x["events"]) for x in f2]
        # (iii) the post-event read returns nothing although the resource exists
        c3 = json.loads(json.dumps(rows))
        w = next((x for x in c3 if x.get("e") == "wrd" and x["res"]["t"] == "ok"), None)
        if w:
            w["res"] = {"t": "ok", "e": "", "rs": [dict(w["res"]["rs"][0], ver="0")]}
            _, f3, _, _ = validate(c3)
            results["post-event-read-older"] = [diagnose(x["events"]) + ":" + stuck_kind(x["stuck"], x["events"]) for x in f3]
        print(json.dumps(results, indent=1))
        ok = all(results.values())
        os.makedirs(os.path.join(vf.VERIF, "evidence", "selftest"), exist_ok=True)
        json.dump({"property": PID, "rejected": results, "ok": ok}, open(os.path.join(vf.VERIF, "evidence", "selftest", "C18.json"), "w"), indent=1)
        return 0 if ok else 2
    finally:
        shutil.rmtree(work, ignore_errors=True)
