"""C18 - resource store: version CAS, stable UIDs, ordered watches.

spec/ResourceStore.tla       sequential specification (WriteCAS / DeleteCAS / Read / List / ListByOwner /
                             Snapshot / Restore / watches) and the property predicates
spec/ResourceStoreMC.tla     bounded exhaustive exploration of that specification (model level)
spec/ResourceStoreTrace.tla  binding (TV, recorded concurrency): TLC searches a linearization of every history
                             recorded by harness/cmd/h-res from the REAL backends (inmem.Backend, inmem.Store,
                             raft.Backend over a real single-node hashicorp/raft) driven by 4..8 goroutines + watchers
                             under the race detector, with snapshot/restore in the middle.

The verdict is TLC's: a history whose search is exhausted without reaching its end is a violation; relaxed
re-runs of that single history (Relax constant) only NAME the violated predicate.
"""
import concurrent.futures as cf
import json
import os
import re
import shutil
import time

import vf

PID = "C18"
TRACE_CFG = "SPECIFICATION Spec\nCONSTANTS\n  Relax = {%s}\nPOSTCONDITION Post\nCHECK_DEADLOCK FALSE\n"

# relaxation name (Relax constant of ResourceStoreTrace) -> predicate it switches off
PRED = {
    "watch-order-xrestore": "WatchOrdered.pre-restore-event",
    "watch-order-dup": "WatchOrdered.repeated-or-stale-event",
    "watch-order": "WatchOrdered",
    "watch-listing": "WatchListingComplete",
    "watch-done": "WatchComplete",
    "read-after-event": "ReadAfterEventMonotone",
    "stall": "Progress",
    "read": "Linearizable-read", "list": "Linearizable-list", "listowner": "Linearizable-listowner", "snapshot": "Linearizable-snapshot",
}
# event class used in the signature of each predicate (stable, no random data)
SIGKIND = {"WatchOrdered.pre-restore-event": "wev", "WatchOrdered.repeated-or-stale-event": "wev", "WatchOrdered": "wev",
           "WatchListingComplete": "wev", "WatchComplete": "wdone", "ReadAfterEventMonotone": "wrd", "Progress": "stall",
           "Linearizable-read": "ret-read", "Linearizable-list": "ret-list", "Linearizable-listowner": "ret-listowner",
           "Linearizable-snapshot": "ret-snapshot"}
# the two narrow WatchOrdered relaxations of the first (batch) pass; events that needed one are printed as WEAK
TOLERANT = ("watch-order-xrestore", "watch-order-dup")
DOC = {
    "Linearizable": "the recorded concurrent history of WriteCAS/DeleteCAS (+reads) has a linearization accepted by "
                    "ResourceStore!Apply: ok iff (absent and version \"\") or (same uid and stored version = presented), "
                    "CASFailure / WrongUid classes otherwise, DeleteCAS no-op when absent or other uid; this contains "
                    "OneWinnerPerVersion, UidStablePerLifetime and StaleCannotTouchNewLifetime for every schedule recorded",
    "OneWinnerPerVersion": "directly on the recorded history: no two successful writes presented the same non-empty version "
                           "of one name (unless a restore can lie between them)",
    "UidStablePerLifetime": "directly on the recorded history: the write producing version v and the write replacing v carry "
                            "the same uid; a write returns the uid it was given",
    "VersionsFresh": "one name never receives the same version from two writes",
    "WatchListingComplete": "the initial listing of a watch equals the matching part of the state at some position of the chosen log",
    "WatchOrdered.pre-restore-event": "WatchOrdered, narrowed: the offending live event repeats a log entry from BEFORE a restore "
                                      "that precedes the watcher's position (an event of the abandoned timeline)",
    "WatchOrdered.repeated-or-stale-event": "WatchOrdered, narrowed: the offending live event repeats an entry at or before the "
                                            "watcher's position in the same epoch",
    "WatchOrdered": "every live event is the next entry of its resource's log after the watcher's position: commit order, "
                    "nothing skipped, repeated or stale, never across a restore",
    "WatchComplete": "after the final (fence) writes the watcher has been told every event of every matching resource",
    "ReadAfterEventMonotone": "the Read made right after receiving an event returns that resource's state at the event's log "
                              "position or a later one",
    "Linearizable-read/list/listowner/snapshot": "the named read-only call is the one that has no linearization point",
}
ASSUMPTIONS = [
    "TLC evaluates spec/ResourceStoreTrace.tla correctly; its pruning (just-in-time Lin steps, latest listing position) loses no linearization",
    "the process-wide atomic counter orders log points consistently with real time (invoke point before the call, return point after it)",
    "all reads are judged as linearizable (stronger than the EventualConsistency contract; true for inmem and for a single-node Raft leader)",
    "mutating calls are held back while a restore runs (what Raft's FSM goroutine does); reads and watchers keep running",
    "raft backend = storage/raft.Backend on a real single-node hashicorp/raft with in-memory stores; follower forwarding is not exercised",
    "a watcher stops after it has seen the final fence write of every tenancy its query matches (relies on per-subscription delivery order only to decide WHEN to stop)",
]


def split_histories(rows):
    out, cur = [], None
    for r in rows:
        if r.get("e") == "reset":
            cur = [r]
            out.append(cur)
        else:
            cur.append(r)
    return out


def run_tlc(rows, relax=(), timeout=900, coverage=False):
    """One TLC run decides all histories in rows (one initial state each).
    Returns (TLCResult, accepted history numbers, {history number: events consumed}, WEAK marks per history number)."""
    text = "".join(json.dumps(r, separators=(",", ":"), sort_keys=True) + "\n" for r in rows)
    cfg = TRACE_CFG % ", ".join('"%s"' % x for x in relax)
    r = vf.tlc("ResourceStoreTrace", "rt.cfg", workers=1, timeout=timeout, deque=True, heap="3g",
               files={"trace.ndjson": text, "rt.cfg": cfg}, quiet=True, coverage=coverage)
    if r.rc != 0:
        raise vf.Infra("ResourceStoreTrace failed rc=%s (not a verdict)\n%s" % (r.rc, r.out[-3000:]))
    acc = set(int(x) for x in re.findall(r'<<"ACCEPT", (\d+)>>', r.out))
    hwm = {int(a): int(b) for a, b in re.findall(r'<<"HWM", (\d+), (\d+)>>', r.out)}
    hnos = [x["h"] for x in rows if x.get("e") == "reset"]
    if sorted(hwm) != sorted(hnos):
        raise vf.Infra("ResourceStoreTrace did not report every history (%s vs %s)\n%s" % (sorted(hwm), sorted(hnos), r.out[-2000:]))
    # WEAK marks carry absolute line numbers: map them to histories
    owner, cur = [], None
    for x in rows:
        if x.get("e") == "reset":
            cur = x["h"]
        owner.append(cur)
    weak = {}
    for ln, nm in re.findall(r'<<"WEAK", (\d+), "([^"]+)">>', r.out):
        weak.setdefault(owner[int(ln) - 1], set()).add(nm)
    return r, acc, hwm, weak


def candidates(stuck, events):
    """relaxations that can explain the event TLC could not get past (tried in this order)"""
    e = stuck.get("e")
    if e == "wev":
        if stuck.get("ph") == "live" and stuck.get("kind") in ("upsert", "delete"):
            return [("watch-order-xrestore",), ("watch-order-dup",), ("watch-order", "watch-done"), ("watch-listing",)]
        return [("watch-listing",)]
    if e == "wrd":
        return [("read-after-event",)]
    if e == "wdone":
        return [("watch-done",)]
    if e == "stall":
        return [("stall",)]
    if e == "ret":
        inv = next((x for x in events if x.get("e") == "inv" and x.get("id") == stuck.get("id")), None)
        if inv and inv["op"]["t"] in ("read", "list", "listowner", "snapshot"):
            return [(inv["op"]["t"],)]
    return []


def name_failure(events, consumed, relax=()):
    """NAME what a history TLC rejected violates (the rejection itself is already TLC's verdict): greedily switch
    off the check that explains the event the search could not get past and let TLC decide again, until it accepts.
    An accepting relaxed run has checked everything else in the history."""
    h = events[0]["h"]
    first = consumed
    relax, states, done = list(relax), 0, False
    for _ in range(8):
        stuck = events[consumed]
        progressed = False
        for c in candidates(stuck, events):
            if set(c) <= set(relax):
                continue
            r2, acc2, hwm2, _ = run_tlc(events, relax=relax + list(c))
            states += r2.distinct
            if h in acc2 or hwm2[h] > consumed:
                relax += [x for x in c if x not in relax]
                done, consumed, progressed = h in acc2, hwm2[h], True
                break
        if done or not progressed:
            break
    if done:
        # keep only the relaxations TLC needs (a WEAK mark of the first pass may stem from a branch that was
        # not the only way): drop each one in turn and let TLC decide again
        for x in list(relax):
            if len(relax) == 1:
                break
            trial = [y for y in relax if y != x]
            if x == "watch-order":
                trial = [y for y in trial if y != "watch-done"]
            r3, acc3, _, _ = run_tlc(events, relax=trial)
            states += r3.distinct
            if h in acc3:
                relax = trial
    preds = [PRED[x] for x in relax if not (x == "watch-done" and "watch-order" in relax)]
    last_kind = None
    if not done:
        preds.append("Linearizable")
        last_kind = stuck_kind(events[consumed], events)
    return {"h": h, "events": events, "stuck": events[first], "stuck_index": first + 1, "preds": preds,
            "fully_explained": done, "last_kind": last_kind}, states


def validate(rows, timeout=900):
    """TLC decides every history in rows.
    Run A: all histories, strict.  Those not accepted are violations; the rest of the function only NAMES them:
    Run B: the rejected ones with the two narrow WatchOrdered relaxations (WEAK marks say which one a branch needed),
    then per history greedy naming for whatever is still rejected.
    Returns (accepted ids, failures, static rejects, distinct states)."""
    hs = split_histories(rows)
    if not hs:
        return [], [], [], 0
    failures, statics = [], []
    r, acc, hwm, _ = run_tlc(rows, timeout=timeout)
    states = r.distinct
    for line, names in r.rejects:
        statics.append((rows[line - 1]["h"], names))
    accepted = [h[0]["h"] for h in hs if h[0]["h"] in acc]
    rej = [h for h in hs if h[0]["h"] not in acc]
    if rej:
        rb, accb, hwmb, weak = run_tlc([e for h in rej for e in h], relax=TOLERANT, timeout=timeout)
        states += rb.distinct
        for h in rej:
            hn = h[0]["h"]
            first = hwm[hn]
            if hn in accb:
                marks = sorted(weak.get(hn, ()))
                if len(marks) > 1:
                    # both narrow relaxations were used on some branch: is one alone enough?
                    for m in marks:
                        r1, acc1, _, _ = run_tlc(h, relax=(m,), timeout=timeout)
                        states += r1.distinct
                        if hn in acc1:
                            marks = [m]
                            break
                failures.append({"h": hn, "events": h, "stuck": h[first], "stuck_index": first + 1,
                                 "preds": [PRED[m] for m in marks] or ["WatchOrdered"], "fully_explained": True})
            else:
                base = [m for m in TOLERANT if m in weak.get(hn, ())]
                f, st = name_failure(h, hwmb[hn] if base else first, relax=base)
                f["stuck"], f["stuck_index"] = h[first], first + 1
                states += st
                failures.append(f)
    return accepted, failures, statics, states


def confirm_unpruned(events, timeout=600):
    """Safeguard against an unsound search reduction: re-decide a rejected history with the reductions
    switched off (Relax "full-search" relaxes no check)."""
    try:
        _, acc, _, _ = run_tlc(events, relax=("full-search",), timeout=timeout)
    except vf.Infra as ex:
        if "timeout" in str(ex):
            return "timeout"
        raise
    return "accepted" if events[0]["h"] in acc else "rejected"


def stuck_kind(ev, events):
    if ev.get("e") == "ret":
        inv = next((x for x in events if x.get("e") == "inv" and x.get("id") == ev.get("id")), None)
        return "ret-" + (inv["op"]["t"] if inv else "?")
    return ev.get("e", "?")


def record(binary, backend, seed, n, ops, first, out):
    p = vf.run_harness(binary, ["-backend", backend, "-seed", str(seed), "-n", str(n), "-ops", str(ops),
                                "-first", str(first), "-out", out], timeout=1800, env={"GORACE": "exitcode=66"})
    if "DATA RACE" in p.stderr or p.returncode == 66:
        raise vf.Infra("race detector report while driving backend %s (infrastructure note, not a property verdict):\n%s"
                       % (backend, p.stderr[:6000]))
    if p.returncode != 0:
        raise vf.Infra("h-res %s failed rc=%d: %s" % (backend, p.returncode, p.stderr[-2000:]))
    return json.loads(p.stdout.strip().splitlines()[-1])


def contended(events):
    """history contains two overlapping calls on one name of which at least one mutated it successfully"""
    inv = [e for e in events if e.get("e") == "inv" and e["op"]["t"] in ("write", "delete")]
    for a in inv:
        if a["res"]["t"] != "ok":
            continue
        for b in inv:
            if b is not a and b["op"]["k"] == a["op"]["k"] and b["at"] < a["rat"] and a["at"] < b["rat"]:
                return True
    return False


SCENARIOS = [("store", "restore-stale"), ("raft", "restore-stale"), ("store", "restore-window"), ("store", "publish-gap")]

PLAN = {
    # (backend, histories, ops per history)
    "quick": {"mc": (3, 1), "runs": [("inmem", 14, 60), ("store", 16, 64), ("raft", 8, 56)], "batch": 8, "par": 4},
    "thorough": {"mc": (4, 1), "runs": [("inmem", 90, 60), ("store", 110, 70), ("raft", 90, 56), ("store", 30, 100), ("raft", 20, 90)], "batch": 10, "par": 6},
}


def mc_cfg(maxops, maxopens):
    s = open(os.path.join(vf.SPEC, "ResourceStore_mc.cfg")).read()
    return s.replace("MaxOps = 3", "MaxOps = %d" % maxops).replace("MaxOpens = 1", "MaxOpens = %d" % maxopens)


def run(tier):
    t0 = time.time()
    seed = vf.seed()
    plan = PLAN[tier]
    binary = vf.build("h-res", race=True)
    work = vf.new_scratch("verif-c18-")
    verdict = vf.Verdict(PID)
    try:
        # ---- E: the sequential specification satisfies its own properties (model level)
        mo, mw = plan["mc"]
        mcx = cf.ThreadPoolExecutor(max_workers=1)
        mcf = mcx.submit(vf.tlc_mc, "ResourceStoreMC", "mc.cfg", files={"mc.cfg": mc_cfg(mo, mw)}, timeout=1500, heap="8g",
                         workers=min(6, vf.NCPU), coverage=(tier == "thorough"))

        # ---- B: record concurrent histories from the real backends (race detector on)
        first = 0
        tot = {"histories": 0, "events": 0, "ops": 0, "watch_events": 0, "watches": 0, "restores": 0, "stalls": 0, "classes": {}, "max_pending": 0}
        files = []
        with cf.ThreadPoolExecutor(max_workers=plan["par"]) as ex:
            futs = []
            for ri, (backend, n, ops) in enumerate(plan["runs"]):
                done = 0
                while done < n:
                    m = min(plan["batch"], n - done)
                    out = os.path.join(work, "h-%s-%d-%d.ndjson" % (backend, ri, done))
                    futs.append((out, backend, ex.submit(record, binary, backend, seed + 104729 * ri, m, ops, first, out)))
                    first += m
                    done += m
            for out, backend, f in futs:
                stx = f.result()
                files.append((out, backend))
                for k in ("histories", "events", "ops", "watch_events", "watches", "restores", "stalls"):
                    tot[k] += stx[k]
                tot["max_pending"] = max(tot["max_pending"], stx["max_pending"])
                for k, v in stx["classes"].items():
                    tot["classes"][k] = tot["classes"].get(k, 0) + v

        # ---- deterministic sequential scripts (the minimal replays of the repaired findings and of restore windows)
        for si, (sb, sc) in enumerate(SCENARIOS):
            out = os.path.join(work, "scenario-%d.ndjson" % si)
            p = vf.run_harness(binary, ["-backend", sb, "-scenario", sc, "-first", str(900000 + si), "-out", out], timeout=600,
                               env={"GORACE": "exitcode=66"})
            if "DATA RACE" in p.stderr or p.returncode == 66:
                raise vf.Infra("race detector report in scenario %s/%s:\n%s" % (sb, sc, p.stderr[:6000]))
            if p.returncode != 0:
                raise vf.Infra("h-res scenario %s/%s failed rc=%d: %s" % (sb, sc, p.returncode, p.stderr[-2000:]))
            stx = json.loads(p.stdout.strip().splitlines()[-1])
            for k in ("histories", "events", "ops", "watch_events", "watches", "restores", "stalls"):
                tot[k] += stx[k]
            with open(os.path.join(work, "scenarios.ndjson"), "a") as f:
                f.write(open(out).read())
        files.append((os.path.join(work, "scenarios.ndjson"), "scenarios"))

        # ---- TLC decides every history
        n_acc = n_cont = states = 0
        pred_hits = {}
        shape = {"live": 0, "wrd": 0, "wdone": 0, "listing": 0, "acc_restore": 0}
        by_backend = {}
        samples = []
        fails = []
        with cf.ThreadPoolExecutor(max_workers=plan["par"]) as ex:
            futs = [(out, backend, vf.read_ndjson(out)) for out, backend in files]
            res = [(out, backend, rows, ex.submit(validate, rows)) for out, backend, rows in futs]
            for out, backend, rows, f in res:
                accepted, failures, statics, st = f.result()
                states += st
                n_acc += len(accepted)
                by_backend[backend] = by_backend.get(backend, 0) + len(accepted) + len(failures)
                hs = split_histories(rows)
                n_cont += sum(1 for h in hs if contended(h))
                for h in hs:
                    shape["live"] += sum(1 for e in h if e.get("e") == "wev" and e.get("ph") == "live" and e.get("kind") in ("upsert", "delete"))
                    shape["wrd"] += sum(1 for e in h if e.get("e") == "wrd")
                    shape["wdone"] += sum(1 for e in h if e.get("e") == "wdone")
                    shape["listing"] += sum(1 for w in h[0]["watches"] if w["snap"])
                    if h[0]["h"] in accepted and any(e.get("e") == "inv" and e["op"]["t"] == "restore" for e in h):
                        shape["acc_restore"] += 1
                if len(samples) < 3 and hs:
                    inv = [e for e in hs[0] if e.get("e") == "inv"]
                    wev = [e for e in hs[0] if e.get("e") == "wev" and e.get("ph") == "live"]
                    samples.append({"backend": backend, "history": hs[0][0]["h"], "goroutines": hs[0][0]["g"], "calls": len(inv),
                                    "first_call": {"op": inv[0]["op"], "result": inv[0]["res"]} if inv else None,
                                    "a_live_watch_event": wev[0] if wev else None, "accepted_by_tlc": hs[0][0]["h"] in accepted})
                for hno, names in statics:
                    ev = next(h for h in hs if h[0]["h"] == hno)
                    for nm in names:
                        verdict.add("%s:%s:write" % (PID, nm), "recorded history %d (%s) violates %s" % (hno, backend, nm),
                                    {"kind": "res-history", "backend": backend, "seed": seed, "events": ev})
                for fl in failures:
                    fails.append((backend, fl))
        known = {f["sig"] for f in vf.load_findings() if f.get("property") == PID and f.get("status") == "known"}
        for backend, fl in fails:
            sigs = sigs_of(fl)
            if any(sg not in known for sg in sigs):
                # about to raise an alarm: make sure it is not an artefact of the search reductions
                if confirm_unpruned(fl["events"]) == "accepted":
                    raise vf.Infra("history %d (%s) is rejected by the pruned search but accepted by the full search: "
                                   "unsound reduction in ResourceStoreTrace (not a verdict)" % (fl["h"], backend))
            for p, sg in zip(fl["preds"], sigs):
                pred_hits[p] = pred_hits.get(p, 0) + 1
                verdict.add(sg, "history %d (%s backend): TLC finds no linearization / watch explanation past event %d %s ; violated predicate: %s"
                            % (fl["h"], backend, fl["stuck_index"], json.dumps(fl["stuck"], sort_keys=True)[:400], p),
                            {"kind": "res-history", "backend": backend, "seed": seed, "predicates": fl["preds"],
                             "stuck_index": fl["stuck_index"], "events": fl["events"]})

        mc = mcf.result()
        mcx.shutdown()
        mc_zero = [x for x in mc.coverage_zero if x in ("DoCmd", "OpenWatch", "Deliver")]
        if mc_zero:
            raise vf.Infra("vacuous model check: actions never taken %s" % mc_zero)

        # ---- results outside the modelled alphabet are not judged (never a violation)
        allowed_err = {"write": {"cas", "uid"}, "delete": {"cas"}, "read": {"notfound", "inconsistent"}, "list": {"inconsistent"},
                       "listowner": set(), "snapshot": set(), "restore": set(), "rbegin": set()}
        odd = [k for k in tot["classes"] if "/err:" in k and k.split("/err:")[1] not in allowed_err.get(k.split("/")[0], set())]
        if odd:
            raise vf.Infra("calls returned error classes the specification does not model: %s" % odd)

        # ---- vacuity
        cl = tot["classes"]
        need = {"live_watch_events": shape["live"], "post_event_reads": shape["wrd"], "watchers_caught_up": shape["wdone"],
                "non_empty_initial_listings": shape["listing"], "accepted_histories_with_restore": shape["acc_restore"],
                "write/ok": cl.get("write/ok", 0), "write/err:cas": cl.get("write/err:cas", 0), "write/err:uid": cl.get("write/err:uid", 0),
                "delete/ok": cl.get("delete/ok", 0), "watch_events": tot["watch_events"], "restores": tot["restores"], "contended": n_cont}
        empty = [k for k, v in need.items() if v == 0]
        if empty:
            raise vf.Infra("vacuous run: never exercised %s" % empty)
        if tier == "thorough" and files:
            r, _, _, _ = run_tlc(vf.read_ndjson(files[len(files) // 2][0]), relax=TOLERANT, coverage=True)
            if [x for x in r.coverage_zero if x in ("Init", "Next")]:
                raise vf.Infra("vacuous trace validation: %s never taken" % r.coverage_zero)

        n_new = verdict.finish()
        coverage = {
            "states": mc.distinct, "transitions": mc.generated,
            "model_check": {"MaxOps": mo, "MaxOpens": mw, "distinct": mc.distinct, "generated": mc.generated, "depth": mc.depth,
                            "invariants": ["InvCAS", "InvWatchView", "InvWatchComplete", "InvReadAfterEvent", "InvReads"],
                            "action_properties": ["PropStale", "PropOnlyCmdsChange"]},
            "traces_validated_against_impl": tot["histories"],
            "histories_accepted_by_tlc": n_acc,
            "histories_by_backend": by_backend,
            "evaluations": tot["events"],
            "calls": tot["ops"], "watch_events": tot["watch_events"], "watch_instances": tot["watches"], "restores": tot["restores"],
            "max_concurrent_pending_calls": tot["max_pending"],
            "call_result_classes": cl,
            "linearization_search_states": states,
            "distinct_nontrivial": n_cont,
            "rule": "every recorded history is decided by TLC (ResourceStoreTrace: linearization search + watch predicates); "
                    "distinct_nontrivial = number of recorded histories in which two calls on one name overlapped in real time and at "
                    "least one of them mutated it successfully (a schedule the sequential conformance suite cannot produce); every history "
                    "comes from a different seed/goroutine mix",
            "samples": samples,
            "predicates": sorted(DOC), "predicate_doc": DOC,
            "known_findings_matched": verdict.known_hit,
            "rejected_histories_by_predicate": pred_hits,
            "stalled_histories": tot.get("stalls", 0),
            "trace_shape": shape,
            "race_detector": "on (go build -race); no report",
            "exhaustive": False,
        }
        vf.write_evidence(PID, tier, "model_checking", coverage, ASSUMPTIONS, time.time() - t0, n_new)
        vf.log("[c18] histories=%d accepted=%d contended=%d events=%d mc_states=%d search_states=%d" % (
            tot["histories"], n_acc, n_cont, tot["events"], mc.distinct, states))
        return 1 if n_new else 0
    finally:
        shutil.rmtree(work, ignore_errors=True)


def sigs_of(fl):
    out = []
    for p in fl["preds"]:
        kind = SIGKIND.get(p) or fl.get("last_kind") or stuck_kind(fl["stuck"], fl["events"])
        if p == "Progress":
            # "stall" = a restore call never returned; anything else that hangs gets its own signature
            pend = sorted({x["op"]["t"] for x in fl["events"] if x.get("e") == "inv" and x["res"]["t"] == "pending"})
            kind = "stall" if "restore" in pend else ("stall-" + "+".join(pend) if pend else "stall-idle")
        out.append("%s:%s:%s" % (PID, p, kind))
    return out


def describe(fl):
    return "+".join(sigs_of(fl))


def replay(path):
    """The replay of a recorded-concurrency violation is the recorded history itself: TLC re-decides it.
    A finding with a deterministic script ("scenario") is first re-executed against the current tree."""
    rp = json.load(open(path))
    rep = rp.get("replay", rp)
    work = vf.new_scratch("verif-c18-replay-")
    try:
        if rep.get("scenario"):
            binary = vf.build("h-res", race=True)
            out = os.path.join(work, "sc.ndjson")
            p = vf.run_harness(binary, ["-backend", rep.get("backend", "store"), "-scenario", rep["scenario"], "-out", out], timeout=600)
            if p.returncode != 0:
                raise vf.Infra("h-res scenario failed: %s" % p.stderr[-2000:])
            ev = vf.read_ndjson(out)
            print("re-executed scenario %s on backend %s: %d events" % (rep["scenario"], rep.get("backend", "store"), len(ev)))
        else:
            ev = rep["events"]
        accepted, failures, statics, _ = validate(ev)
        bad = 0
        for hno, names in statics:
            print("history %s: recorded history violates %s" % (hno, names))
            bad += 1
        for fl in failures:
            print("history %s rejected by TLC: no linearization / watch explanation past event %d %s ; violated: %s" % (
                fl["h"], fl["stuck_index"], json.dumps(fl["stuck"], sort_keys=True)[:300], fl["preds"]))
            bad += 1
        if bad:
            print("VIOLATION property=%s replay=%s" % (PID, path))
            return 1
        print("replay accepted: %d events" % len(ev))
        return 0
    finally:
        shutil.rmtree(work, ignore_errors=True)


def selftest():
    """Binding demonstration: corrupt one recorded field of a history TLC accepts; TLC must reject it."""
    binary = vf.build("h-res", race=True)
    work = vf.new_scratch("verif-c18-self-")
    try:
        rows = None
        for i in range(12):
            out = os.path.join(work, "s%d.ndjson" % i)
            record(binary, "inmem", vf.seed() + 7 * i, 1, 60, 0, out)
            cand = vf.read_ndjson(out)
            acc, fl, stc, _ = validate(cand)
            if not fl and not stc and any(x.get("e") == "wev" and x.get("ph") == "live" for x in cand) \
                    and any(x.get("e") == "inv" and x["op"]["t"] == "write" and x["res"]["t"] == "err" for x in cand):
                rows = cand
                break
        if rows is None:
            print("selftest: no accepted baseline history found")
            return 2
        results = {}
        # (i) flip a CAS failure into a success
        c1 = json.loads(json.dumps(rows))
        errs = [x for x in c1 if x.get("e") == "inv" and x["op"]["t"] == "write" and x["res"]["t"] == "err"]
        won = {(json.dumps(x["op"]["k"], sort_keys=True), x["op"]["pv"]) for x in c1
               if x.get("e") == "inv" and x["op"]["t"] == "write" and x["res"]["t"] == "ok" and x["op"]["pv"]}
        e = next((x for x in errs if (json.dumps(x["op"]["k"], sort_keys=True), x["op"]["pv"]) in won), errs[0])
        e["res"] = {"t": "ok", "e": "", "rs": [{"k": e["op"]["k"], "uid": e["op"]["uid"], "ver": "9999", "d": e["op"]["d"], "own": e["op"]["own"]}]}
        _, f1, s1, _ = validate(c1)
        results["cas-failure-flipped-to-success"] = [describe(x) for x in f1] + ["static:" + "+".join(n) for _, n in s1]
        # (ii) a watcher receives its last live event twice
        c2 = json.loads(json.dumps(rows))
        lives = [i for i, x in enumerate(c2) if x.get("e") == "wev" and x.get("ph") == "live" and x.get("kind") in ("upsert", "delete")]
        c2.insert(lives[-1] + 1, dict(c2[lives[-1]]))
        _, f2, _, _ = validate(c2)
        results["watch-event-repeated"] = [describe(x) for x in f2]
        # (iii) the read made after an event returns a version that never existed / is older
        c3 = json.loads(json.dumps(rows))
        w = next((x for x in c3 if x.get("e") == "wrd" and x["res"]["t"] == "ok"), None)
        if w:
            w["res"] = {"t": "ok", "e": "", "rs": [dict(w["res"]["rs"][0], ver="0")]}
            _, f3, _, _ = validate(c3)
            results["post-event-read-older"] = [describe(x) for x in f3]
        # (iv) an initial listing loses one resource
        c4 = json.loads(json.dumps(rows))
        wd = next((x for x in c4[0]["watches"] if x["snap"]), None)
        if wd:
            gone = wd["snap"].pop()
            c4 = [x for x in c4 if not (x.get("e") == "wev" and x.get("wid") == wd["wid"] and x.get("ph") == "snap" and x.get("r") and x["r"][0] == gone)]
            _, f4, _, _ = validate(c4)
            results["listing-incomplete"] = [describe(x) for x in f4]
        print(json.dumps(results, indent=1))
        ok = all(results.values())
        os.makedirs(os.path.join(vf.VERIF, "evidence", "selftest"), exist_ok=True)
        json.dump({"property": PID, "rejected": results, "ok": ok}, open(os.path.join(vf.VERIF, "evidence", "selftest", "C18.json"), "w"), indent=1)
        return 0 if ok else 2
    finally:
        shutil.rmtree(work, ignore_errors=True)
