"""C10 - conditional writes are honest: applied iff matched, reported iff applied (spec/CAS.tla, CASJudge.tla)."""
import json
import os
import shutil
import time

import vf

PID = "C10"
DOC = {
    "applied-but-not-matched / matched-but-not-applied": "the write took effect iff CASJudge!Matched(kind, pre-state, supplied index)",
    "reported-success-but-not-applied / applied-but-reported-failure": "the reply says success iff the write took effect",
    "failed-write-changed-state": "a conditional write that did not take effect leaves the byte-level dump of every table and index row unchanged",
    "composite-not-atomic": "a command writing several cells (CA roots + CA config, feature-gate policy + status) applies all or none",
    "cannot-report-failure": "the command's reply type cannot express that the condition failed",
}


def run(tier):
    t0 = time.time()
    seed = vf.seed()
    binary = vf.build("h-cas")
    work = vf.new_scratch("verif-C10-")
    verdict = vf.Verdict(PID)
    try:
        steps = 5 if tier == "quick" else 7
        mc = vf.tlc_mc("CAS", "mc.cfg", files={"mc.cfg": open(os.path.join(vf.SPEC, "CAS_mc.cfg")).read().replace("MaxSteps = 5", "MaxSteps = %d" % steps)},
                       coverage=(tier == "thorough"))
        gsteps = 3 if tier == "quick" else 4
        g = vf.tlc_gen("CASGen", "gen.cfg", files={"gen.cfg": open(os.path.join(vf.SPEC, "CAS_gen.cfg")).read().replace("MaxSteps = 4", "MaxSteps = %d" % gsteps)})
        behs = vf.dedup_behaviours(g.traces)
        bf = os.path.join(work, "h.json")
        json.dump(behs, open(bf, "w"))
        tp = os.path.join(work, "t.ndjson")
        nrand, rlen = (40, 10) if tier == "quick" else (300, 14)
        p = vf.run_harness(binary, ["-in", bf, "-out", tp, "-seed", str(seed), "-random", str(nrand), "-len", str(rlen)])
        if p.returncode != 0:
            raise vf.Infra("h-cas failed: %s" % p.stderr[-2000:])
        meta = json.loads(p.stdout)
        r = vf.tlc_validate("CASTrace", "CASTrace.cfg", tp, nevents=meta["events"], timeout=3000, heap="12g")
        rows = vf.read_ndjson(tp)
        per_type = {}
        nontrivial = set()
        for e in rows:
            c = e["cmd"]
            per_type[c["type"]] = per_type.get(c["type"], 0) + 1
            for pt in e["parts"]:
                nontrivial.add((pt["type"], pt["exists"], "cur" if pt["sup"] in (pt["mi"], pt["tix"]) else ("zero" if pt["sup"] == 0 else "other"), pt["reported"], pt["post_exists"]))
        hits = {}
        for line, names in r.rejects:
            e = rows[line - 1]
            for nm in names:
                hits[nm] = hits.get(nm, 0) + 1
                sig = "%s:%s:%s" % (PID, nm, e["cmd"]["type"])
                verdict.add(sig, "%s: %s rejected by TLC; classes=%s/%s parts=%s" % (
                    e["cmd"]["type"], nm, e["cmd"].get("class"), e["cmd"].get("class2"), json.dumps(e["parts"])[:400]),
                    {"kind": "cas-history", "type": e["cmd"]["type"], "history": e["cmd"]["history"], "predicate": nm})
        n_new = verdict.finish()
        samples = [rows[i] for i in (0, len(rows) // 3, 2 * len(rows) // 3, len(rows) - 1)]
        cov = {"states": mc.distinct, "transitions": mc.generated, "traces_validated_against_impl": meta["histories"] * meta["types"],
               "samples": samples, "evaluations": meta["events"], "distinct_nontrivial": len(nontrivial),
               "rule": "every TLC-generated cell history (put/del/cond(class) <= %d steps, prefix-deduplicated) plus %d random histories of length %d is "
                       "executed for each of the conditional command types through fsm.FSM.Apply; each conditional command is one event judged by TLC; "
                       "distinct_nontrivial = distinct (type, existed, supplied class, reply, exists after)" % (gsteps, nrand, rlen),
               "conditional_commands_per_type": per_type, "generated_histories": len(behs), "predicate_doc": DOC,
               "rejected_by_predicate": hits, "known_findings_matched": verdict.known_hit, "exhaustive": False}
        if len(per_type) < 19:
            raise vf.Infra("vacuity: only %d conditional command types exercised" % len(per_type))
        vf.write_evidence(PID, tier, "model_checking", cov,
                          ["TLC evaluates spec/CASTrace.tla correctly", "the harness' unconditional put/del set-up commands are read back and verified",
                           "supplied index 0 on CAOpSetConfig means 'unconditional' in the FSM and is not treated as a conditional write"],
                          time.time() - t0, n_new)
        return 1 if n_new else 0
    finally:
        shutil.rmtree(work, ignore_errors=True)


def replay(path):
    rp = json.load(open(path))["replay"]
    binary = vf.build("h-cas")
    work = vf.new_scratch("verif-replay-")
    try:
        bf = os.path.join(work, "h.json")
        json.dump([rp["history"]], open(bf, "w"))
        tp = os.path.join(work, "t.ndjson")
        p = vf.run_harness(binary, ["-in", bf, "-out", tp, "-random", "0"])
        if p.returncode != 0:
            raise vf.Infra(p.stderr[-2000:])
        meta = json.loads(p.stdout)
        r = vf.tlc_validate("CASTrace", "CASTrace.cfg", tp, nevents=meta["events"])
        rows = vf.read_ndjson(tp)
        bad = [(l, ns) for l, ns in r.rejects if rows[l - 1]["cmd"]["type"] == rp["type"] and rp["predicate"] in ns]
        for l, ns in bad:
            print("rejected:", rows[l - 1]["cmd"]["type"], ns, json.dumps(rows[l - 1]["parts"])[:300])
        if bad:
            print("VIOLATION property=%s replay=%s" % (PID, path))
            return 1
        print("replay accepted")
        return 0
    finally:
        shutil.rmtree(work, ignore_errors=True)
