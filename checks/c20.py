"""C20 - snapshot archives: exact round trip, corruption always detected.

spec/Archive.tla      region map of an archive, fault actions, required outcome class per faulted archive
spec/ArchiveMC.tla    all fault sequences <= MaxFaults (plain and gzip-wrapped): invariants + scenario generation
spec/ArchiveTrace.tla judges what the real code did with every scenario (h-snap) against the spec's class

Family limit (stated in the evidence): TLA+ does not model bytes.  It supplies the partition of the byte space
into regions and the outcome the property requires per region / fault combination; the harness supplies the
exhaustive byte positions inside each region of freshly written archives.

Helpers that are not in lib/vf.py (kept here on purpose): parallel harness shards, generation cache, class parsing.
"""
import collections
import concurrent.futures
import json
import os
import re
import shutil
import time

import vf

PID = "C20"

PRED_DOC = {
    "NeverDifferent@<api>": "no byte-level instance of the scenario was accepted with a state or metadata different from what was saved "
                            "(Archive!InvAcceptedSame on the implementation)",
    "MustReject@<api>": "Archive!Class(faulted archive) = MustReject (Reasons: altered:meta/state, cut-inside-member, lacks:meta/state/sums, "
                        "lacks-checksum:meta/state, unexpected-member, gz-cut, gz-trailer-altered) => every instance was rejected",
    "MustAcceptSame@<api>": "pristine archive (no fault, or faults that cancel structurally) => accepted, state byte-identical, metadata equal",
    "Instances@<api>": "every instance of the scenario was classified for that entry point",
    "NotHandedToRestore": "the recording FSM behind snapshot.Restore on a live in-memory Raft was never reached after a failing read, "
                          "and never at all for a MustReject archive",
    "RestoreHandsOriginal": "when snapshot.Restore succeeded the FSM received exactly one Restore with the original state bytes",
    "drift": "the recorded fault list is not a behaviour of Archive!Faults/Apply (harness/model drift; infrastructure, not a verdict)",
    "apis": "verifread = archive.go read() on the plain tar (hook); verify/read/restore = snapshot.Verify/Read/Restore on the gzip form",
}

ASSUMPTIONS = [
    "TLC evaluates spec/ArchiveTrace.tla correctly; SHA-256 and CRC-32 do not collide on the archives tried",
    "family limit: TLA+ supplies the partition of the byte space into regions and the required outcome per region; "
    "the harness supplies exhaustive positions inside each region (regions > 4 KiB: boundaries + seeded stride)",
    "faults are single-byte XOR flips, truncations, member removal / reordering / injection of regular ustar members; "
    "at most two faults per TLC scenario (three in the random driver); tar extension headers (PAX/GNU) and data after the "
    "end-of-archive blocks are not in the fault alphabet",
    "metadata strings are valid UTF-8 (JSON cannot round-trip other byte strings)",
    "two-fault scenarios are instantiated at sampled position pairs (first/first, last/last, seeded random), single faults at every position",
    "the text of SHA256SUMS is abstracted to its checksum LINES (member named, digest = saved SHA-256 or not) by a reference decoder "
    "of the sha256sum text format in the harness; a byte flip inside it is labelled with its effect on the lines (neutral, wrong(j), x(j), "
    "ok(j), drop(j)); flips with any other effect (a line split in two) are not instantiated. This labelling is an input fact, not a verdict",
    "line faults (dup, copy, swap, drop, addx, addwrong) re-frame the SHA256SUMS member as a well-formed tar member of the new length",
    "GzTrailerRequired is a named strengthening of the statement: a gzip-wrapped archive whose CRC32/ISIZE trailer is missing or altered must be rejected",
]


def label(f):
    s = "%s:%s:%s" % (f["t"], f["k"], f["m"])
    return s + (":" + f["fx"] if f.get("fx") else "")


def spec_key(maxfaults):
    import hashlib
    cfgs = "".join(open(os.path.join(vf.SPEC, f)).read() for f in ("Archive_mc.cfg", "Archive_gen.cfg"))
    return vf.spec_hash("Archive", "ArchiveMC") + hashlib.sha1(cfgs.encode()).hexdigest()[:6] + "-%d" % maxfaults


def cfg_text(name, maxfaults):
    return open(os.path.join(vf.SPEC, name)).read().replace("MaxFaults = 2", "MaxFaults = %d" % maxfaults)


def model(tier):
    """exhaustive check + scenario generation (two JVMs in parallel); quick tier caches both by spec hash"""
    mcf = 3 if tier == "thorough" else 2
    cache = os.path.join(vf.BUILD, "c20-model-%s-%s.json" % (tier, spec_key(mcf)))
    if tier == "quick" and os.path.exists(cache):
        try:
            c = json.load(open(cache))
            vf.log("[c20] model check + generation unchanged (spec hash %s): cached counts, %d scenarios" % (spec_key(mcf), len(c["scenarios"])))
            c["mc"]["cached"] = True
            return c
        except Exception:
            pass
    with concurrent.futures.ThreadPoolExecutor(2) as ex:
        fmc = ex.submit(vf.tlc_mc, "ArchiveMC", "mc.cfg", files={"mc.cfg": cfg_text("Archive_mc.cfg", mcf)}, workers=6,
                        timeout=1500, coverage=(tier == "thorough"), heap="6g")
        fgen = ex.submit(vf.tlc_gen, "ArchiveMC", "gen.cfg", files={"gen.cfg": cfg_text("Archive_gen.cfg", 2)}, timeout=1500, heap="4g")
        mc, gen = fmc.result(), fgen.result()
    if tier == "thorough" and mc.coverage_zero:
        raise vf.Infra("vacuous model: never evaluated %s" % mc.coverage_zero[:10])
    scen = [{"wrap": w, "faults": [], "class": "MustAcceptSame", "reasons": []} for w in ("plain", "gz")] + gen.traces
    c = {"mc": {"maxfaults": mcf, "distinct": mc.distinct, "generated": mc.generated, "wall_s": round(mc.wall, 1), "cached": False,
                "invariants": ["InvClassMC", "InvAcceptedSameMC", "InvNotHandedToRestoreMC", "InvNoFaultAccepted"]},
         "gen": {"maxfaults": 2, "distinct": gen.distinct, "scenarios": len(scen), "wall_s": round(gen.wall, 1)},
         "scenarios": scen}
    if tier == "quick":
        tmp = cache + ".%d" % os.getpid()
        json.dump(c, open(tmp, "w"))
        os.replace(tmp, cache)
    return c


def asis_model():
    """documentation of the (meanwhile fixed) finding on the MODEL: the reader as archive.go had it before the fix
    (Tracks = FALSE) violates InvClass; the counterexample is Remove(state.bin) on an archive whose state is empty."""
    r = vf.tlc("ArchiveMC", "Archive_asis.cfg", workers=2, timeout=600, quiet=True)
    return {"violated": r.violated, "distinct": r.distinct, "note": "reader model WITHOUT the member-seen check (pre-fix archive.go): expected InvClassMC violated by remove(state) with empty payload"}


def tmp_root():
    for d in ("/dev/shm", vf.TMPROOT):
        if os.path.isdir(d) and os.access(d, os.W_OK):
            return d
    return vf.TMPROOT


_BATCH = [0]


def run_shards(binary, work, args_of, nshards, env=None):
    """args_of(i, out, tmp) -> argv ; runs the shards concurrently, returns (trace paths, summed meta)"""
    tmpbase = vf.new_scratch("verif-c20-tmp-") if tmp_root() == vf.TMPROOT else None
    if tmpbase is None:
        tmpbase = os.path.join(tmp_root(), "verif-c20-%d-%d" % (os.getpid(), int(time.time() * 1000) % 100000))
        os.makedirs(tmpbase, exist_ok=True)
    e = {"GOMAXPROCS": "2"}
    e.update(env or {})
    _BATCH[0] += 1
    batch = _BATCH[0]
    outs, metas = [], []
    try:
        def one(i):
            out = os.path.join(work, "t-%d-%d.ndjson" % (batch, i))
            p = vf.run_harness(binary, args_of(i, out, os.path.join(tmpbase, "s%d" % i)), timeout=3000, env=e)
            if p.returncode != 0:
                raise vf.Infra("h-snap failed (rc=%d): %s" % (p.returncode, p.stderr[-2000:]))
            return out, json.loads(p.stdout.strip().splitlines()[-1])
        with concurrent.futures.ThreadPoolExecutor(nshards) as ex:
            for out, meta in ex.map(one, range(nshards)):
                outs.append(out)
                metas.append(meta)
    finally:
        shutil.rmtree(tmpbase, ignore_errors=True)
    return outs, {"events": sum(m["events"] for m in metas), "instances": sum(m["instances"] for m in metas)}


_CLASS_RE = re.compile(r'<<"CLASS", (\d+), "(\w+)">>')


def tlc_judge(work, rows):
    """TLC (ArchiveTrace) on the recorded events, in at most two JVMs side by side.
    Returns (classes per row, [(row index, predicate names)])."""
    nchunks = 2 if len(rows) > 6000 else 1
    size = (len(rows) + nchunks - 1) // nchunks
    chunks = [(k * size, rows[k * size:(k + 1) * size]) for k in range(nchunks)]

    def one(arg):
        off, part = arg
        tp = os.path.join(work, "trace-%d-%d.ndjson" % (off, len(part)))
        vf.write_ndjson(tp, part)
        r = vf.tlc_validate("ArchiveTrace", "ArchiveTrace.cfg", tp, nevents=len(part), timeout=3000, heap="6g")
        cl = {}
        for ln in r.prints:
            m = _CLASS_RE.search(ln)
            if m:
                cl[off + int(m.group(1)) - 1] = m.group(2)
        return cl, [(off + line - 1, names) for line, names in r.rejects]
    classes, rejects = {}, []
    with concurrent.futures.ThreadPoolExecutor(nchunks) as ex:
        for cl, rj in ex.map(one, chunks):
            classes.update(cl)
            rejects += rj
    if len(classes) != len(rows):
        raise vf.Infra("trace validation classified %d of %d events" % (len(classes), len(rows)))
    return [classes[i] for i in range(len(rows))], rejects


def judge(work, rows, verdict, stats):
    """TLC judges the recorded events; fills verdict and stats; returns the spec class of every row"""
    classes, rejects = tlc_judge(work, rows)
    for idx, names in rejects:
        e = rows[idx]
        source = "%s event %d" % (e.get("source", "trace"), idx + 1)
        if "drift" in names:
            raise vf.Infra("model drift at %s: %s" % (source, json.dumps(e["scn"])[:400]))
        whys = sorted(n[4:] for n in names if n.startswith("why:"))
        feature = "empty-state" if e["base"]["empty"] else "nonempty-state"
        folded = {}
        for nm in names:
            if nm.startswith("why:"):
                continue
            pred, _, api = nm.partition("@")
            if pred == "NotHandedToRestore" and e["restore"]["fsm_after_reject"] == 0:
                pred = "MustReject"    # the hand-off follows from the accepting read of a MustReject archive: same root cause
                api = "restore-fsm"
            folded.setdefault(pred, []).append(api or "-")
        for pred, apis in folded.items():
            stats["rejected_by_predicate"][pred] += 1
            sig = "%s:%s[%s]:%s" % (PID, pred, ",".join(whys) if pred == "MustReject" else "", feature)
            want = {"MustReject": ("same", "different"), "NeverDifferent": ("different",), "MustAcceptSame": ("rejected",)}.get(pred, ())
            ex = next((x for x in e["ex"] if x["outcome"] in want and x["api"] in apis), None) or \
                next((x for x in e["ex"] if x["outcome"] in want), None) or \
                next((x for x in e["ex"] if x["api"] == "fsm"), None) or (e["ex"][0] if e["ex"] else {"params": []})
            verdict.add(sig, "%s rejected by TLC at %s: base=%s(size %d) wrap=%s faults=%s entry points=%s counts=%s restore=%s err=%r" % (
                pred, source, e["base"]["id"], e["base"]["size"], e["scn"]["wrap"], [label(f) for f in e["scn"]["faults"]],
                sorted(set(apis)), json.dumps(e["api"], sort_keys=True), json.dumps(e["restore"], sort_keys=True), ex.get("err", "")),
                {"kind": "archive-instance", "wrap": e["scn"]["wrap"], "faults": e["scn"]["faults"], "params": ex["params"],
                 "base": {"id": e["base"]["id"], "sums_first": e["base"]["sums_first"]}, "seed": e["seed"], "predicate": pred})
    return classes


def account(rows, classes, stats):
    for e, cls in zip(rows, classes):
        fs = e["scn"]["faults"]
        st = stats["by_class"][cls]
        st["events"] += 1
        st["instances"] += e["n"]
        for api, c in e["api"].items():
            for k, v in c.items():
                st[k] += v
                stats["evaluations"] += v
        for f in fs:
            stats["label_instances"][label(f)] += e["n"]
        if len(fs) == 1:
            lb = e["scn"]["wrap"] + " " + label(fs[0])
            d = stats["single_fault_regions"].setdefault(lb, {"class": cls, "positions": 0, "rejected": 0, "same": 0, "different": 0})
            d["positions"] += e["n"]
            for c in e["api"].values():
                for k, v in c.items():
                    d[k] += v
        stats["tmp_leaked"] += e.get("tmp_leaked", 0)
        stats["fsm_calls"] += e["restore"]["fsm_calls"]
        stats["restore_calls"] += sum(e["api"].get("restore", {}).values())
        if fs:
            stats["distinct"].add(json.dumps(fs, sort_keys=True) + e["scn"]["wrap"] + e["base"]["id"])


def new_stats():
    return {"by_class": collections.defaultdict(lambda: collections.Counter()), "label_instances": collections.Counter(),
            "single_fault_regions": {}, "evaluations": 0, "tmp_leaked": 0, "fsm_calls": 0, "restore_calls": 0, "distinct": set(),
            "rejected_by_predicate": collections.Counter()}


def pipeline(tier, scenarios, work, verdict, stats, *, bases=None, nrandom=0, env=None, nshards=None):
    binary = vf.build("h-snap")
    seed = vf.seed()
    nshards = nshards or max(2, min(8, vf.NCPU // 2))
    sf = os.path.join(work, "scenarios.json")
    json.dump([{"wrap": s["wrap"], "faults": s["faults"]} for s in scenarios], open(sf, "w"))
    t1 = time.time()

    def args_run(i, out, tmp):
        a = ["run", "-scn", sf, "-tier", tier, "-seed", str(seed), "-shard", "%d/%d" % (i, nshards), "-tmp", tmp, "-out", out]
        return a + (["-bases", ",".join(bases)] if bases else [])
    outs, meta = run_shards(binary, work, args_run, nshards, env)
    sources = [("tlc-scenarios", outs)]
    if nrandom:
        per = max(1, nrandom // nshards)
        routs, rmeta = run_shards(binary, work, lambda i, out, tmp: ["random", "-seed", str(seed * 1009 + i), "-n", str(per), "-tmp", tmp, "-out", out],
                                  nshards, env)
        sources.append(("random-driver", routs))
        meta = {"events": meta["events"] + rmeta["events"], "instances": meta["instances"] + rmeta["instances"]}
    rows = []
    for name, paths in sources:
        for p in paths:
            for e in vf.read_ndjson(p):
                e["source"] = name
                rows.append(e)
    if not rows:
        raise vf.Infra("no events recorded")
    vf.log("[c20] harness: %d events, %d byte-level instances in %.0fs (%d shards)" % (meta["events"], meta["instances"], time.time() - t1, nshards))
    classes = judge(work, rows, verdict, stats)
    account(rows, classes, stats)
    samples = []
    for k in sorted({0, len(rows) // 5, 2 * len(rows) // 5, 3 * len(rows) // 5, 4 * len(rows) // 5, len(rows) - 1}):
        e = rows[k]
        samples.append({"source": e["source"], "base": e["base"]["id"], "wrap": e["scn"]["wrap"], "faults": [label(f) for f in e["scn"]["faults"]],
                        "spec_class": classes[k], "instances": e["n"], "impl_outcomes": e["api"], "fsm": e["restore"]})
    meta["rows"] = rows
    return meta, samples


def vacuity(scenarios, stats, tier):
    """every fault class of the spec must have been instantiated on real archives.  Quick runs only a
    sample of the two-fault scenarios: there the classes that exist only after a first fault (regions of an
    injected member, repair of a wrong digest) are reported, and required in the thorough tier."""
    want = {label(f) for s in scenarios for f in s["faults"]}
    single = {label(f) for s in scenarios if len(s["faults"]) == 1 for f in s["faults"]}
    missing = sorted(l for l in want if stats["label_instances"].get(l, 0) == 0)
    hard = [l for l in missing if tier == "thorough" or l in single]
    if hard:
        raise vf.Infra("vacuity: fault classes of the spec never instantiated on real archives: %s" % hard)
    for cls in ("MustReject", "MustAcceptSame", "RejectOrSame"):
        if stats["by_class"][cls]["instances"] == 0:
            raise vf.Infra("vacuity: outcome class %s never instantiated" % cls)
    return len(want), missing


def run(tier):
    t0 = time.time()
    work = vf.new_scratch("verif-c20-")
    verdict = vf.Verdict(PID)
    stats = new_stats()
    try:
        m = model(tier)
        scen = m["scenarios"]
        if tier == "quick":
            # quick: every single-fault scenario, every third two-fault scenario (rotated by the seed); thorough: all
            scen = [s for i, s in enumerate(scen) if len(s["faults"]) < 2 or (i + vf.seed()) % 3 == 0]
        meta, samples = pipeline(tier, scen, work, verdict, stats, nrandom=(4000 if tier == "thorough" else 320))
        nlabels, not_inst = vacuity(scen, stats, tier)
        asis = asis_model() if tier == "thorough" else None
        n_new = verdict.finish()
        by_class = {k: dict(v) for k, v in stats["by_class"].items()}
        coverage = {
            "states": m["mc"]["distinct"] + m["gen"]["distinct"], "transitions": m["mc"]["generated"] + m["gen"]["distinct"],
            "traces_validated_against_impl": meta["events"],
            "byte_level_instances": meta["instances"],
            "evaluations": stats["evaluations"],
            "distinct_nontrivial": len(stats["distinct"]),
            "rule": "every fault sequence of length <= 2 that TLC enumerates over the region map (plain and gzip-wrapped) is applied to fresh "
                    "archives written by the real writer (13 bases: payload 0/1/511/512/513/70000 bytes random and compressible, snapshot.New "
                    "on a live in-memory Raft, extreme metadata) at every byte position of the region (single faults) or at sampled position "
                    "pairs (two faults), read back through archive.go read / snapshot.Verify / Read / Restore; TLC (ArchiveTrace) recomputes the "
                    "required class from the fault list and judges the recorded outcome counts. evaluations = (instance, entry point) pairs; "
                    "distinct_nontrivial = distinct (fault sequence, wrap, base archive) triples with at least one fault and one instance",
            "family_limit": "TLA+ supplies the partition of the byte space into regions and the required outcome per region; "
                            "the harness supplies exhaustive positions inside each region",
            "model_check": m["mc"], "generation": m["gen"], "asis_reader_model": asis,
            "per_class": by_class,
            "fault_classes_in_spec": nlabels, "fault_classes_not_instantiated_in_this_sample": not_inst,
            "fault_class_instances": dict(stats["label_instances"]),
            "single_fault_regions": stats["single_fault_regions"],
            "restore_calls": stats["restore_calls"], "fsm_restore_invocations": stats["fsm_calls"],
            "observation_tmp_files_left_by_rejecting_read": stats["tmp_leaked"],
            "samples": samples[:8],
            "predicate_doc": PRED_DOC,
            "rejected_events_by_predicate": dict(stats["rejected_by_predicate"]),
            "known_findings_matched": verdict.known_hit,
            "exhaustive": False,
        }
        vf.write_evidence(PID, tier, "model_checking", coverage, ASSUMPTIONS, time.time() - t0, n_new)
        vf.log("[c20] %d events, %d byte-level instances, classes: %s" % (
            meta["events"], meta["instances"], {k: v["instances"] for k, v in by_class.items()}))
        return 1 if n_new else 0
    finally:
        shutil.rmtree(work, ignore_errors=True)


def replay(path):
    rp = json.load(open(path))
    inst = rp.get("replay", rp)
    binary = vf.build("h-snap")
    work = vf.new_scratch("verif-c20-replay-")
    try:
        inp = os.path.join(work, "inst.json")
        json.dump(inst, open(inp, "w"))
        outs, _ = run_shards(binary, work, lambda i, out, tmp: ["one", "-in", inp, "-tmp", tmp, "-out", out], 1)
        rows = vf.read_ndjson(outs[0])
        for e in rows:
            e["source"] = "replay"
        verdict = vf.Verdict(PID)
        stats = new_stats()
        classes = judge(work, rows, verdict, stats)
        print("spec class: %s ; implementation: %s ; fsm: %s" % (classes[0], json.dumps(rows[0]["api"], sort_keys=True), json.dumps(rows[0]["restore"], sort_keys=True)))
        if verdict.viol:
            for v in verdict.viol:
                print("rejected: sig=%s %s" % (v["sig"], v["what"][:300]))
            print("VIOLATION property=%s replay=%s" % (PID, path))
            return 1
        print("replay accepted")
        return 0
    finally:
        shutil.rmtree(work, ignore_errors=True)


def selftest():
    """binding demonstration: (i) one recorded field corrupted => TLC rejects; (ii) the real reader's result perturbed once
    (H_SNAP_PERTURB: one rejection by archive.go read is reported as an acceptance) => the check reports a violation."""
    work = vf.new_scratch("verif-c20-self-")
    try:
        scen = [s for s in model("quick")["scenarios"] if len(s["faults"]) <= 1]
        verdict, stats = vf.Verdict(PID), new_stats()
        meta, _ = pipeline("quick", scen, work, verdict, stats, bases=["r513"], nshards=2)
        base_sigs = {v["sig"] for v in verdict.viol}
        rows = meta["rows"]
        k = next(i for i, e in enumerate(rows) if e["scn"]["faults"] and e["scn"]["faults"][0]["t"] == "flip" and
                 e["scn"]["faults"][0]["k"] == "content" and e["scn"]["faults"][0]["m"] == "state" and "verify" in e["api"])
        rows[k]["api"]["verify"]["rejected"] -= 1
        rows[k]["api"]["verify"]["same"] += 1
        v2 = vf.Verdict(PID)
        judge(work, rows, v2, new_stats())
        ok1 = any(v["sig"].startswith("C20:MustReject[altered:state]") for v in v2.viol)
        v3 = vf.Verdict(PID)
        pipeline("quick", scen, work, v3, new_stats(), bases=["r513"], nshards=1, env={"H_SNAP_PERTURB": "997"})
        ok2 = bool({v["sig"] for v in v3.viol} - base_sigs)
        print("selftest: corrupted recorded field rejected by TLC: %s ; perturbed reader result rejected: %s" % (ok1, ok2))
        os.makedirs(os.path.join(vf.VERIF, "evidence", "selftest"), exist_ok=True)
        json.dump({"property": PID, "ok": bool(ok1 and ok2), "rejections": {
            "clean (single faults, base r513)": sorted(base_sigs),
            "corrupted-field: one verify rejection of a state.bin content flip recorded as accepted-same": sorted({v["sig"] for v in v2.viol}),
            "perturbed-call: every 997th rejection by archive.go read reported as accepted-same (H_SNAP_PERTURB)": sorted({v["sig"] for v in v3.viol})}},
            open(os.path.join(vf.VERIF, "evidence", "selftest", PID + ".json"), "w"), indent=1, sort_keys=True)
        return 0 if ok1 and ok2 else 2
    finally:
        shutil.rmtree(work, ignore_errors=True)
