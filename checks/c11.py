"""C11 - streaming subscribers materialize exactly the server's state.

spec/Stream.tla (operators = critical sections of agent/consul/stream + the submatview handlers),
spec/StreamMC.tla (bounded instance), spec/StreamTrace.tla (step-local trace validation).
Binding: schedule-imposed replay.  h-stream executes TLC-generated schedules (edge mode + -simulate)
and seeded random schedules on the REAL EventPublisher / FSM / state store / views, the publisher
goroutine is replaced by VerifDrainOne; TLC judges every recorded step.
"""
import concurrent.futures
import json
import os
import shutil
import threading
import time

import vf

PID = "C11"
JVM = threading.BoundedSemaphore(2)     # never more than two TLC JVMs at once

PRIO = ["IdxMonotone", "ViewExact", "NoSkip", "ClosedNeverData", "AclCloses", "RestoreCloses", "Conform", "QueueLen",
        "UnknownCommand"]

PRED_DOC = {
    "ViewExact": "after every delivery that updates the view (end of snapshot, event batch) and after a granted resume, the "
                 "REAL materialized view (health.HealthView / configentry views) equals a REAL direct query result "
                 "(CheckServiceNodes / CheckConnectServiceNodes / ConfigEntry / ConfigEntriesByKind) recorded at the delivered index",
    "IdxMonotone": "a delivery never carries an index below the index the subscription has already shown (previous delivery, "
                   "end-of-snapshot index)",
    "NoSkip": "when nothing is queued for publication and Next blocks, the view equals the current direct query result",
    "ClosedNeverData": "Next on a subscription closed by an ACL change or a restore returns the close error, never data",
    "AclCloses": "draining the batch of an ACL token write leaves no subscription of that token open",
    "RestoreCloses": "FSM.Restore leaves no subscription open",
    "Conform": "Stream.tla's operator applied to the recorded pre-state explains the recorded result and post-state "
               "(queue, topic buffers, cached snapshots, every subscription's buffered items, every view), for the code as it "
               "is or for the property-conforming variant",
    "QueueLen": "the recorded publish queue has the length of the real publishCh",
}

ASSUMPTIONS = [
    "TLC 1.8 evaluates spec/StreamTrace.tla correctly",
    "the publisher goroutine's loop body is publishEvent on one received batch (VerifDrainOne) and nothing else reads publishCh",
    "Next+materializer handler is one step: the handler only touches subscriber-local state",
    "the harness mirrors submatview/handler.go + materializer.updateView/reset (20 lines) around the real View implementations; "
    "LocalMaterializer itself is a goroutine loop and cannot be scheduled",
    "subscriber tokens are either unrestricted or a real policy authorizer that denies service read on listed names; the "
    "expected view is the direct query restricted by the same rule (CheckServiceNode.CanRead / ConfigEntry.CanRead)",
    "ViewExact accepts, besides the state after the last write <= delivered index, any recorded state whose direct query "
    "reported exactly the delivered index (the catalog can change a result without moving its query index, e.g. when an "
    "instance is re-registered under another service name; that is a blocking-query matter, C06)",
    "a rejected step on a subscription that already had a rejected step is counted as a consequence of the first one",
]


# ----------------------------------------------------------------------------- configurations

def _cfg(kind, **kw):
    d = dict(NC=2, MaxCommits=2, MaxSubs=2, MaxRestores=0, Profile='"health"', GGap="TRUE", GRestore="TRUE", Ttls="{FALSE}")
    d.update(kw)
    s = "SPECIFICATION Spec\nCONSTANTS\n" + "".join("  %s = %s\n" % (k, v) for k, v in d.items())
    if kind == "mc":
        s += ("VIEW View\nINVARIANTS InvViewExact InvNoSkip InvRestoreCloses InvAclCloses InvClosedNeverData\n"
              "PROPERTIES PropIdxMonotone\n")
    elif kind == "gen":
        s += "VIEW View\nPROPERTIES EmitProp\n"
    else:  # simulate: no VIEW (history is part of the walk)
        s += "PROPERTIES EmitProp\n"
    return s + "CHECK_DEADLOCK FALSE\n"


def P(name):
    return '"%s"' % name


ASIS = dict(GGap="FALSE", GRestore="FALSE")

TIERS = {
    "quick": {
        # conforming variant: all properties must hold ; (name, constants, coverage)
        "mc": [("health", dict(MaxSubs=1, MaxCommits=2), False)],
        # the code as it is: the model is expected to exhibit the recorded findings
        "asis": [("gap", dict(GGap="FALSE", Profile=P("one"), NC=1, MaxSubs=1))],
        "edge": [("one", dict(Profile=P("one"), NC=1, MaxCommits=2, MaxSubs=2, **ASIS)),
                 # one register that renames an instance AND changes its node; subscribers on the old / new name
                 ("ren", dict(Profile=P("ren"), NC=1, MaxCommits=2, MaxSubs=1, **ASIS)),
                 # one transaction with three events on one subject; a restricted and an unrestricted subscriber
                 ("aclf", dict(Profile=P("aclf1"), NC=2, MaxCommits=1, MaxSubs=1, **ASIS))],
        "sim": [("mixed", dict(Profile=P("mixed"), MaxCommits=3, MaxRestores=1, Ttls="{FALSE, TRUE}", **ASIS), 40, 30),
                ("one-resume", dict(Profile=P("one"), MaxCommits=3, MaxSubs=3, MaxRestores=1, Ttls="{FALSE, TRUE}", **ASIS), 40, 30)],
        "rnd": (40, 50),
        "chunk": 16000,
    },
    "thorough": {
        "mc": [("one+cache+restore", dict(Profile=P("one"), MaxSubs=1, MaxRestores=1, Ttls="{FALSE, TRUE}"), True),
               ("health", dict(), False),
               ("mixed", dict(Profile=P("mixed"), MaxSubs=1), False),
               ("acl", dict(Profile=P("acl"), MaxCommits=2), False),
               ("wild+cache", dict(Profile=P("wild"), MaxSubs=1, Ttls="{TRUE}"), False),
               ("conn", dict(Profile=P("conn"), MaxSubs=1, Ttls="{FALSE, TRUE}"), False),
               ("ren", dict(Profile=P("ren"), MaxSubs=1), False),
               ("aclf", dict(Profile=P("aclf"), MaxCommits=2, MaxSubs=2), False)],
        "asis": [("gap", dict(GGap="FALSE", Profile=P("one"), NC=1, MaxSubs=1)),
                 ("restore", dict(GRestore="FALSE", Profile=P("one"), MaxCommits=2, MaxRestores=1))],
        "edge": [("one+cache", dict(Profile=P("one"), NC=1, MaxCommits=2, MaxSubs=2, Ttls="{TRUE}", **ASIS)),
                 ("one+restore", dict(Profile=P("one"), NC=1, MaxCommits=2, MaxSubs=1, MaxRestores=1, **ASIS)),
                 ("conn", dict(Profile=P("conn"), NC=1, MaxCommits=2, MaxSubs=1, **ASIS)),
                 ("wild", dict(Profile=P("wild"), NC=1, MaxCommits=2, MaxSubs=1, **ASIS)),
                 ("acl", dict(Profile=P("acl"), NC=1, MaxCommits=2, MaxSubs=2, **ASIS)),
                 ("ren", dict(Profile=P("ren"), NC=1, MaxCommits=2, MaxSubs=1, **ASIS)),
                 ("rep", dict(Profile=P("rep"), NC=1, MaxCommits=2, MaxSubs=1, **ASIS)),
                 ("aclf", dict(Profile=P("aclf1"), NC=2, MaxCommits=1, MaxSubs=1, **ASIS))],
        "sim": [("mixed", dict(Profile=P("mixed"), MaxCommits=4, MaxRestores=1, Ttls="{FALSE, TRUE}", **ASIS), 100, 30),
                ("health", dict(MaxCommits=4, MaxRestores=1, Ttls="{FALSE, TRUE}", **ASIS), 100, 30),
                ("acl", dict(Profile=P("acl"), MaxCommits=4, MaxRestores=1, Ttls="{FALSE, TRUE}", **ASIS), 60, 30),
                ("one-resume", dict(Profile=P("one"), MaxCommits=4, MaxSubs=3, MaxRestores=1, Ttls="{FALSE, TRUE}", **ASIS), 150, 35),
                ("renrep", dict(Profile=P("renrep"), MaxCommits=4, MaxSubs=2, Ttls="{FALSE, TRUE}", **ASIS), 100, 30),
                ("aclf", dict(Profile=P("aclf"), MaxCommits=3, MaxSubs=2, Ttls="{FALSE, TRUE}", **ASIS), 100, 30)],
        "rnd": (120, 80),
        "chunk": 25000,
    },
}


# ----------------------------------------------------------------------------- classification of rejected steps

def pre_of(rows, i):
    e = rows[i]
    return e["pre"] if "pre" in e else rows[i - 1]["post"]


def kind(rows, i):
    """command kind of a recorded step, refined by the class of what was delivered (stable, no random data)"""
    e = rows[i]
    c = e["cmd"]
    t = c["t"]
    if t == "next":
        r = e["res"]
        if r["k"] != "data":
            return "next." + r["k"]
        it = r["item"]
        x = pre_of(rows, i)["cl"][c["c"] - 1]
        if it["k"] == "ev" and x["snapidx"] > 0 and it["idx"] < x["snapidx"]:
            return "next.behind-snapshot"          # a batch older than the snapshot already delivered
        if it["k"] == "ev" and x["snapidx"] > 0 and it["idx"] <= x["ridx"]:
            return "next.pre-restore-batch"        # a batch of the store that a restore replaced
        if it["k"] == "ev" and x["snapidx"] > 0 and it["idx"] < x.get("sbirth", 0):
            # a batch committed before the snapshot was read, delivered behind it although the subscription passes
            # over batches below the snapshot index: the snapshot's reported (query) index is below the store's
            return "next.behind-misindexed-snapshot"
        seen_reg = set()
        for v in it["evs"]:
            if v["op"] == "reg":
                seen_reg.add(v["id"])
            elif v["op"] == "dereg" and v["id"] in seen_reg:
                # one batch registers an instance and THEN deregisters the same instance (same subject)
                return "next.reg-then-dereg-in-batch"
        return "next." + it["k"]
    if t == "sub":
        y = e["post"]["cl"][c["c"] - 1]
        resumed = c.get("fromidx", 0) > 0 and not (y["pend"] and y["pend"][0]["k"] == "nstf")
        if resumed and c["fromidx"] <= e["post"]["ridx"]:
            return "sub.resume-across-restore"     # resumed at an index of the store that a restore replaced
        return "sub." + c["from"]
    if t == "commit":
        return "commit." + c["w"]["op"]
    return t


def behaviour_of(rows, i):
    lo = i
    while "pre" not in rows[lo]:
        lo -= 1
    cfg = {"t": "cfg", "ttl": rows[lo]["pre"]["ttl"], "nc": len(rows[lo]["pre"]["cl"]), "deny": rows[lo]["pre"].get("deny", {})}
    cmds = [cfg]
    for e in rows[lo:i + 1]:
        c = {k: v for k, v in e["cmd"].items() if k not in ("q", "fromidx", "skey")}
        cmds.append(c)
    return cmds


def classify(rows, rejects):
    """-> list of dict(line, sig, names, consequence)"""
    beh = -1
    ords = {}
    inst = [None] * len(rows)
    for i, e in enumerate(rows):
        if "pre" in e:
            beh += 1
            ords = {}
        c = e["cmd"]
        if c["t"] == "sub":
            ords[c["c"]] = ords.get(c["c"], 0) + 1
        if c["t"] in ("sub", "next", "unsub"):
            inst[i] = (beh, c["c"], ords.get(c["c"], 0))
    first = {}
    out = []
    for line, names in sorted(rejects):
        i = line - 1
        p = next(n for n in PRIO + sorted(names) if n in names)
        sig = "%s:%s:%s" % (PID, p, kind(rows, i))
        k = inst[i]
        if k is not None and k in first:
            out.append({"line": line, "sig": first[k], "names": names, "consequence": True})
            continue
        if k is not None:
            first[k] = sig
        out.append({"line": line, "sig": sig, "names": names, "consequence": False})
    return out


def nontrivial_key(rows, i):
    e = rows[i]
    c = e["cmd"]
    pre = pre_of(rows, i)
    k = [kind(rows, i)]
    if c["t"] in ("next", "sub", "unsub"):
        x = pre["cl"][c["c"] - 1]
        k += [x["mode"], x["state"], min(len(x["pend"]), 3), min(pre["qlen"], 2), len(pre["cache"]) > 0]
        if c["t"] == "next" and e["res"]["k"] == "data":
            k += [len(e["res"]["item"]["evs"]) > 1, e["post"]["cl"][c["c"] - 1]["mode"]]
    elif c["t"] == "drain":
        k += [min(pre["qlen"], 2), min(len(pre["tbs"]), 2), len(pre["cache"]) > 0,
              bool(pre["queue"] and pre["queue"][0]["toks"])]
    elif c["t"] == "commit":
        k += [e["res"]["ok"], min(pre["qlen"], 2)]
    elif c["t"] == "restore":
        k += [min(pre["qlen"], 2), min(len(pre["tbs"]), 2), sum(1 for x in pre["cl"] if x["state"] == "open")]
    return json.dumps(k)


def antecedents(rows):
    """how often the antecedent of every predicate was true on the recorded steps (vacuity)"""
    n = {"ViewExact": 0, "ViewExact@resume": 0, "IdxMonotone": 0, "NoSkip": 0, "ClosedNeverData": 0, "AclCloses": 0,
         "RestoreCloses": 0, "cached-snapshot": 0, "wildcard-delivery": 0, "connect-delivery": 0,
         "partly-readable-batch": 0, "rename-with-node-change": 0}
    for i, e in enumerate(rows):
        c = e["cmd"]
        if c["t"] == "next":
            pre = pre_of(rows, i)
            x = pre["cl"][c["c"] - 1]
            y = e["post"]["cl"][c["c"] - 1]
            r = e["res"]
            if r["k"] == "data" and r["item"]["k"] == "ev":
                denied = e["post"]["deny"].get(x["tok"], [])
                hidden = [v for v in r["item"]["evs"] if v["ak"] in denied]
                if hidden and len(hidden) < len(r["item"]["evs"]):
                    n["partly-readable-batch"] += 1
            if r["k"] == "data" and y["mode"] == "stream":
                n["ViewExact"] += 1
                n["IdxMonotone"] += 1
                if x["subj"] == "*":
                    n["wildcard-delivery"] += 1
                if x["topic"] == "ServiceHealthConnect":
                    n["connect-delivery"] += 1
            if r["k"] == "blocked" and e["post"]["qlen"] == 0 and y["mode"] in ("stream", "resume"):
                n["NoSkip"] += 1
            if x["state"] in ("acl", "force"):
                n["ClosedNeverData"] += 1
        elif c["t"] == "drain":
            pre = pre_of(rows, i)
            if pre["queue"] and any(x["state"] == "open" and x["tok"] in pre["queue"][0]["toks"] for x in pre["cl"]):
                n["AclCloses"] += 1
        elif c["t"] == "restore":
            if any(x["state"] == "open" for x in pre_of(rows, i)["cl"]):
                n["RestoreCloses"] += 1
        elif c["t"] == "commit":
            w = c["w"]
            if w["op"] == "put" and w.get("addr") and e["res"].get("n") and e["post"]["queue"] \
                    and any(v["op"] == "dereg" for v in e["post"]["queue"][-1]["evs"]):
                n["rename-with-node-change"] += 1
        elif c["t"] == "sub":
            pre = pre_of(rows, i)
            y = e["post"]["cl"][c["c"] - 1]
            if c.get("fromidx", 0) > 0 and not (y["pend"] and y["pend"][0]["k"] == "nstf"):
                n["ViewExact@resume"] += 1
            if any(x["topic"] == c["topic"] and x["subj"] == c.get("skey") for x in pre["cache"]):
                n["cached-snapshot"] += 1
    return n


# ----------------------------------------------------------------------------- pipeline

def validate(tp, nevents):
    with JVM:
        return vf.tlc_validate("StreamTrace", "StreamTrace.cfg", tp, nevents=nevents, timeout=3000, heap="8g")


def harness_replay(binary, behs, tp, work, tag, extra=()):
    bf = os.path.join(work, "beh-%s.json" % tag)
    with open(bf, "w") as f:
        json.dump(behs, f)
    p = vf.run_harness(binary, ["replay", "-in", bf, "-out", tp, "-flush"] + list(extra))
    if p.returncode != 0:
        raise vf.Infra("h-stream replay failed: %s" % p.stderr[-2000:])
    return json.loads(p.stdout)


def finding_files():
    d = os.path.join(vf.VERIF, "findings")
    if not os.path.isdir(d):
        return []
    return sorted(os.path.join(d, f) for f in os.listdir(d) if f.startswith("C11-") and f.endswith(".json"))


def _chunks(tagged, chunk_events, per_beh_extra=5):
    """split [(source, behaviour)] into lists of roughly chunk_events recorded steps (one trace file and one TLC
    validation run each)"""
    out, cur, n = [], [], 0
    for src, b in tagged:
        cur.append((src, b))
        n += len(b) + per_beh_extra
        if n >= chunk_events:
            out.append(cur)
            cur, n = [], 0
    if cur:
        out.append(cur)
    return out


def run(tier):
    t0 = time.time()
    seed = vf.seed()
    T = TIERS[tier]
    binary = vf.build("h-stream")
    work = vf.new_scratch("verif-%s-" % PID)
    verdict = vf.Verdict(PID)
    cov = {"mc": [], "asis_model": [], "edge": [], "simulate": [], "random": [], "finding_replays": []}

    def model_checking():
        # 1. the property-conforming variant satisfies the property on the bounded model
        for name, kw, withcov in T["mc"]:
            with JVM:
                r = vf.tlc_mc("StreamMC", "mc.cfg", files={"mc.cfg": _cfg("mc", **kw)}, timeout=2400, heap="12g",
                              workers=min(8, vf.NCPU), coverage=withcov)
            cov["mc"].append({"config": name, "constants": kw, "distinct": r.distinct, "generated": r.generated, "depth": r.depth,
                              "wall_s": round(r.wall, 1), "never_evaluated": sorted(set(r.coverage_zero))[:30]})
            if withcov:
                dead = [a for a in ("Commit", "Drain", "Subscribe", "Next", "Unsubscribe", "Expire", "Restore") if a in r.coverage_zero]
                if dead:
                    raise vf.Infra("vacuous model check %s: actions never taken %s" % (name, dead))
        # 2. the model of the code as it is: TLC is expected to find the design-level counterexamples that the
        #    known findings record (a counterexample on the model alone is never a violation)
        for name, kw in T["asis"]:
            with JVM:
                r = vf.tlc("StreamMC", "mc.cfg", files={"mc.cfg": _cfg("mc", **kw)}, timeout=1200, heap="8g", workers=min(8, vf.NCPU))
            if r.rc != 0 and r.violated is None:
                raise vf.Infra("as-is model run %s failed rc=%s\n%s" % (name, r.rc, r.out[-2000:]))
            cov["asis_model"].append({"config": name, "constants": kw, "model_violates": r.violated, "distinct": r.distinct})

    def schedules():
        # 3. schedules generated by TLC from the model of the code as it is
        tagged = []
        for name, kw in T["edge"]:
            with JVM:
                g = vf.tlc_gen("StreamMC", "gen.cfg", files={"gen.cfg": _cfg("gen", **kw)}, timeout=2400, heap="8g")
            behs = vf.dedup_behaviours(g.traces)
            tagged += [("edge:" + name, b) for b in behs]
            cov["edge"].append({"config": name, "constants": kw, "transitions": len(g.traces), "behaviours": len(behs),
                                "distinct_states": g.distinct})
        for j, (name, kw, num, depth) in enumerate(T["sim"]):
            with JVM:
                g = vf.tlc_gen("StreamMC", "sim.cfg", files={"sim.cfg": _cfg("sim", **kw)}, timeout=600, heap="6g",
                               simulate="num=%d" % num, depth=depth, sseed=seed * 31 + j)
            behs = vf.dedup_behaviours(g.traces)
            tagged += [("simulate:" + name, b) for b in behs]
            cov["simulate"].append({"config": name, "constants": kw, "walks": len(behs), "depth": depth, "seed": seed * 31 + j})
        ffs = finding_files()
        tagged += [("finding:" + os.path.basename(f), json.load(open(f))["replay"]["cmds"]) for f in ffs]
        cov["finding_replays"] = [os.path.basename(f) for f in ffs]
        jobs = []
        for k, ch in enumerate(_chunks(tagged, T["chunk"])):
            tp = os.path.join(work, "tlc-%d.ndjson" % k)
            meta = harness_replay(binary, [b for _, b in ch], tp, work, "tlc-%d" % k)
            os.remove(os.path.join(work, "beh-tlc-%d.json" % k))
            jobs.append(([src for src, _ in ch], tp, meta))
        # seeded random schedules over a universe larger than TLC's constants
        n, length = T["rnd"]
        per = max(1, T["chunk"] // (length + 20))
        k = 0
        while n > 0:
            m = min(n, per)
            tp = os.path.join(work, "rnd-%d.ndjson" % k)
            p = vf.run_harness(binary, ["random", "-seed", str(seed * 1000 + k), "-n", str(m), "-len", str(length), "-out", tp])
            if p.returncode != 0:
                raise vf.Infra("h-stream random failed: %s" % p.stderr[-2000:])
            jobs.append((["random(seed=%d)" % (seed * 1000 + k)] * m, tp, json.loads(p.stdout)))
            n -= m
            k += 1
        cov["random"].append({"schedules": T["rnd"][0], "length": length, "seed": seed,
                              "universe": "3 subscribers, 3 nodes x 5 service ids x 3 names, sidecar proxies, 2 resolvers, wildcard, "
                                          "3 tokens (two of them restricted in half of the schedules), node deregistration, check "
                                          "status, node address / node-level check changes inside registrations, multi-service "
                                          "transactions, cache on/off, restores"})
        return jobs

    try:
        with concurrent.futures.ThreadPoolExecutor(max_workers=4) as ex:      # TLC runs are throttled by JVM
            f_mc = ex.submit(model_checking)
            jobs = ex.submit(schedules).result()
            # 4. TLC judges every recorded step
            results = list(ex.map(lambda j: validate(j[1], j[2]["events"]), jobs))
            f_mc.result()
        states = sum(x["distinct"] for x in cov["mc"])
        transitions = sum(x["generated"] for x in cov["mc"])
        n_beh = n_events = 0
        samples = []
        pred_hits = {}
        sig_hits = {}
        nontrivial = set()
        ante = {}
        conseq = 0
        per_source = {}
        for (srcs, tp, meta), r in zip(jobs, results):
            rows = vf.read_ndjson(tp)
            os.remove(tp)
            n_beh += meta["behaviours"]
            n_events += meta["events"]
            behno = []
            b = -1
            for e in rows:
                if "pre" in e:
                    b += 1
                behno.append(b)
            for src in srcs:
                per_source[src.split(":")[0]] = per_source.get(src.split(":")[0], 0) + 1
            for i in range(len(rows)):
                nontrivial.add(nontrivial_key(rows, i))
            for k, v in antecedents(rows).items():
                ante[k] = ante.get(k, 0) + v
            if len(samples) < 5:
                k = next((i for i, e in enumerate(rows) if e["cmd"]["t"] == "next" and e["res"]["k"] == "data"
                          and e["res"]["item"]["k"] == "ev" and e["post"]["cl"][e["cmd"]["c"] - 1]["mode"] == "stream"
                          and i > 40 * len(samples)), None)
                if k is not None:
                    e = rows[k]
                    y = e["post"]["cl"][e["cmd"]["c"] - 1]
                    samples.append({"source": srcs[behno[k]], "subscription": [y["topic"], y["subj"]], "delivered": e["res"]["item"],
                                    "impl_view": y["view"], "impl_index": y["vidx"],
                                    "direct_query_at_index": e["res"]["direct"]["cands"][0],
                                    "accepted_by_tlc": not any(line == k + 1 for line, _ in r.rejects)})
            for c in classify(rows, r.rejects):
                for nm in c["names"]:
                    pred_hits[nm] = pred_hits.get(nm, 0) + 1
                if c["consequence"]:
                    conseq += 1
                    continue
                sig_hits[c["sig"]] = sig_hits.get(c["sig"], 0) + 1
                i = c["line"] - 1
                e = rows[i]
                what = "step rejected by TLC (%s) in a schedule from %s: cmd=%s res=%s" % (
                    ",".join(c["names"]), srcs[behno[i]],
                    json.dumps({k: v for k, v in e["cmd"].items() if k != "q"})[:200],
                    json.dumps({k: v for k, v in e["res"].items() if k not in ("cur", "direct")})[:300])
                verdict.add(c["sig"], what, {"kind": "stream-schedule", "cmds": behaviour_of(rows, i), "rejected": c["names"]})
            del rows
        n_new = verdict.finish()
        if tier == "thorough":
            vac = [k for k, v in ante.items() if v == 0]
            if vac:
                raise vf.Infra("vacuous: predicate antecedents never exercised on the real code: %s" % vac)
        coverage = {
            "states": states, "transitions": transitions,
            "traces_validated_against_impl": n_beh,
            "impl_steps_validated": n_events,
            "schedules_by_source": per_source,
            "samples": samples,
            "evaluations": n_events,
            "distinct_nontrivial": len(nontrivial),
            "rule": "every step of every schedule (TLC edge-mode behaviours = one per transition of the bounded as-is model, "
                    "prefix-deduplicated, each extended by drain-all/read-all; TLC -simulate walks; seeded random schedules) is "
                    "executed on the real stream.EventPublisher / fsm.FSM / state.Store / views under the imposed schedule and "
                    "judged by TLC (StreamTrace); distinct_nontrivial counts distinct (command kind incl. delivered class, "
                    "handler mode, subscription state, pending/queue/cache occupancy, result shape) tuples among those steps",
            "model_check": cov["mc"], "as_is_model": cov["asis_model"], "edge_mode": cov["edge"], "simulate": cov["simulate"],
            "random": cov["random"], "finding_replays": cov["finding_replays"],
            "predicates": sorted(PRED_DOC), "predicate_doc": PRED_DOC,
            "predicate_antecedents_exercised": ante,
            "rejected_steps_by_predicate": pred_hits,
            "rejected_steps_by_signature": sig_hits,
            "rejected_steps_counted_as_consequence": conseq,
            "known_findings_matched": verdict.known_hit,
            "exhaustive": False,
        }
        vf.write_evidence(PID, tier, "model_checking", coverage, ASSUMPTIONS, time.time() - t0, n_new)
        return 1 if n_new else 0
    finally:
        shutil.rmtree(work, ignore_errors=True)


def replay(path):
    rp = json.load(open(path))
    cmds = rp["replay"]["cmds"]
    binary = vf.build("h-stream")
    work = vf.new_scratch("verif-replay-")
    try:
        tp = os.path.join(work, "t.ndjson")
        meta = harness_replay(binary, [cmds], tp, work, "replay")
        r = validate(tp, meta["events"])
        rows = vf.read_ndjson(tp)
        for i, e in enumerate(rows):
            c = e["cmd"]
            line = "%3d %-8s %s" % (i + 1, c["t"], json.dumps({k: v for k, v in c.items() if k not in ("t", "q", "skey")}))
            if c["t"] == "next":
                y = e["post"]["cl"][c["c"] - 1]
                res = e["res"]
                d = res["item"] if res["k"] == "data" else res.get("why", "")
                line += "  -> %s %s | view=%s index=%d" % (res["k"], json.dumps(d)[:160], [x["id"] for x in y["view"]], y["vidx"])
            print(line)
        bad = 0
        for c in classify(rows, r.rejects):
            print("step %d rejected: %s  sig=%s%s" % (c["line"], ",".join(c["names"]), c["sig"],
                                                      " (consequence)" if c["consequence"] else ""))
            bad += 1
        if bad:
            print("VIOLATION property=%s replay=%s" % (PID, path))
            return 1
        print("replay accepted: %d steps" % meta["events"])
        return 0
    finally:
        shutil.rmtree(work, ignore_errors=True)


def selftest():
    """binding demonstration: (i) corrupt one recorded field, (ii) perturb the real run (a delivered batch is withheld
    from the view); TLC must reject both"""
    binary = vf.build("h-stream")
    work = vf.new_scratch("verif-selftest-")
    try:
        cmds = [{"t": "cfg", "ttl": False, "nc": 1},
                {"t": "sub", "c": 1, "topic": "ServiceHealth", "subj": "web", "tok": "t1", "from": "fresh"},
                {"t": "next", "c": 1},
                {"t": "commit", "idx": 5, "w": {"op": "put", "kind": "svc", "id": "a", "name": "web", "dest": ""}},
                {"t": "drain"}, {"t": "next", "c": 1}]
        tp = os.path.join(work, "good.ndjson")
        meta = harness_replay(binary, [cmds], tp, work, "good")
        r = validate(tp, meta["events"])
        if r.rejects:
            print("selftest: clean schedule rejected: %s" % r.rejects)
            return 2
        rows = vf.read_ndjson(tp)
        rows[-2]["post"]["cl"][0]["view"] = []          # (i) the view lost the registered instance
        tp2 = os.path.join(work, "corrupt.ndjson")
        vf.write_ndjson(tp2, rows)
        r2 = validate(tp2, len(rows))
        tp3 = os.path.join(work, "perturbed.ndjson")
        meta3 = harness_replay(binary, [cmds], tp3, work, "perturbed", extra=["-perturb", "1"])
        r3 = validate(tp3, meta3["events"])
        print("selftest: corrupted field -> %s ; perturbed run -> %s" % (r2.rejects, r3.rejects))
        return 0 if r2.rejects and r3.rejects else 1
    finally:
        shutil.rmtree(work, ignore_errors=True)
