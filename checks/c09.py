"""C09 - ACL enforcement: nothing unreadable returned, expired tokens never honoured (spec/Filter.tla).

Pipeline
  1. TLC checks spec/FilterMC.tla exhaustively (Filter_mc.cfg): the reference filter satisfies the four
     predicates for every arrangement, the predicates reject perturbed outputs, the transcribed loops of
     the code refine the declarative filter, an expired token is never honoured in any cache state.
  2. TLC prints every bounded arrangement per concrete response type (Filter_gen.cfg) and every bounded
     operation history of an expiring token (Filter_genx.cfg).
  3. harness/cmd/h-filter instantiates each arrangement as the real Go type (all 35 cases of the type switch of
     aclfilter.Filter + FilterDirEnt + FilterTxnResults) under 3 authorizers compiled from real policies, runs the
     real filter and records (surviving labels in order, ResultsFilteredByACLs); runs each history against the
     real consul.ACLResolver over a real state.Store.  Seeded random cases over a larger universe are added.
  4. TLC (FilterTrace) judges every recorded event: NothingUnreadable, NothingDropped, OrderPreserved, FlagExact,
     ExpiredNeverHonoured.
"""
import collections
import concurrent.futures
import hashlib
import json
import os
import re
import shutil
import time

import vf

PID = "C09"

PREDS = ["NothingUnreadable", "NothingDropped", "OrderPreserved", "FlagExact", "FlagNotStale", "ExpiredNeverHonoured"]
PRED_DOC = {
    "NothingUnreadable": "every surviving element / leaf / head node / secret of the real output is readable under the per-type rule "
                         "(facts read off the real authorizer); no invented element or map entry",
    "NothingDropped": "every readable input element (with multiplicity), readable leaf of a surviving node and readable head node "
                      "is present in the real output",
    "OrderPreserved": "the surviving labels form a subsequence of the input labels (slices; Go maps are exempt)",
    "FlagExact": "ResultsFilteredByACLs (and IndexedServiceTopology.FilteredByACLs) is true exactly when the real output lost an "
                 "element, leaf or head node; removal of un-named prepared queries alone may or may not be flagged",
    "FlagNotStale": "a reply object is re-used by blockingquery.Query (payload re-populated, QueryMeta kept): when Filter is entered with "
                    "ResultsFilteredByACLs already true (prior=yes, set directly or left by a real first evaluation on the same object) and this "
                    "evaluation removes nothing, the flag must be false on exit; the specified flag never depends on the prior value",
    "ExpiredNeverHonoured": "a resolution that started after the token's ExpirationTime yields no authorizer that allows anything "
                            "the token's policy grants, whatever the identity cache / store row / RPC reachability",
    "ValidHonoured": "(non-vacuity, infrastructure if it fails) a resolution that finished before ExpirationTime with the row stored "
                     "and the backend reachable is honoured",
    "named_deviations": "GatewayServiceReadByLinkedServiceOnly, TxnCheckReadByServiceOnly, ServiceDumpNodeOptional, "
                        "IntentionReadEitherEnd, UnnamedPreparedQueryDroppedSilently, IntentionMatchAllOrNothing, "
                        "ManagementSeesAllQueries (see spec/Filter.tla)",
}

ASSUMPTIONS = [
    "TLC evaluates spec/FilterTrace.tla correctly; h-filter only builds values, calls the real functions and copies fields",
    "readability facts of each element are the real authorizer's own answers (acl.NewPolicyAuthorizerWithDefaults on policy text); "
    "the semantics of the authorizer itself is C08's subject",
    "CE build: namespaces / partitions are not varied (every ACL object shares one authorizer context)",
    "expiry: the resolver backend returns the token row as stored, without looking at ExpirationTime (worst case permitted by "
    "ACLResolverBackend: reaper has not run / remote clock lags); ACLDownPolicy 'allow' is excluded (it authorizes any secret by design)",
    "expiry: phases are taken from the process clock around each call; a call that straddles the expiration instant is 'ambiguous' and not judged",
    "maskResultsFilteredByACLs (anonymous callers) needs a running Server and is modelled (Filter!Mask) but not bound",
]

TIERS = {
    #           MaxSmall MaxMid MaxBig MaxGroups  gen MaxOps  mc MaxOps  random filter  random expiry
    "quick":    dict(consts=(4, 3, 2, 2), gen_ops=3, mc_ops=4, rnd=1500, rndx=80, reps=24, xreps=200),
    "thorough": dict(consts=(5, 4, 3, 3), gen_ops=4, mc_ops=5, rnd=20000, rndx=600, reps=24, xreps=200),
}

N_SWITCH_CASES = 35


def _cfg(name, consts, ops):
    s = open(os.path.join(vf.SPEC, name)).read()
    for k, v in zip(["MaxSmall", "MaxMid", "MaxBig", "MaxGroups"], consts):
        s = re.sub(k + r" = \d+", "%s = %d" % (k, v), s)
    return re.sub(r"MaxOps = \d+", "MaxOps = %d" % ops, s)


def _harness(binary, args):
    p = vf.run_harness(binary, args, timeout=3000)
    if p.returncode != 0:
        raise vf.Infra("h-filter %s failed rc=%s: %s" % (args[0], p.returncode, p.stderr[-2000:]))
    return json.loads(p.stdout.strip().splitlines()[-1])


def _dedup_histories(traces):
    by = {}
    for b in traces:
        by.setdefault(json.dumps(b["cfg"], sort_keys=True), []).append(b["ops"])
    out = []
    for k in sorted(by):
        for ops in vf.dedup_behaviours(by[k]):
            out.append({"cfg": json.loads(k), "ops": ops})
    return out


def _validate_chunks(paths_rows, work, par=4, chunk=30000):
    """Validate rows with FilterTrace in chunks (one JVM each, a few in parallel).
    Returns list of (row, [failed predicate names])."""
    rows = []
    for p in paths_rows:
        rows.extend(vf.read_ndjson(p))
    chunks = [rows[i:i + chunk] for i in range(0, len(rows), chunk)] or [[]]
    files = []
    for i, ch in enumerate(chunks):
        fp = os.path.join(work, "chunk-%d.ndjson" % i)
        vf.write_ndjson(fp, ch)
        files.append(fp)

    def one(i):
        if not chunks[i]:
            return []
        r = vf.tlc_validate("FilterTrace", "FilterTrace.cfg", files[i], nevents=len(chunks[i]), timeout=3000, heap="6g")
        return [(chunks[i][line - 1], names) for line, names in r.rejects]

    rej = []
    with concurrent.futures.ThreadPoolExecutor(max_workers=par) as ex:
        for res in ex.map(one, range(len(chunks))):
            rej.extend(res)
    return rows, rej


def _case_of(ev):
    # a second evaluation on a re-used reply (seq 2) replays as the same content entered with the recorded prior flag
    return {"kind": ev["kind"], "acl": ev["acl"], "prior": ev.get("prior", "no"), "groups": ev["in"]}


def _removed(ev):
    nin = sum(len(g["items"]) + sum(len(s) for it in g["items"] for s in it["subs"]) for g in ev["in"])
    nout = sum(len(g["items"]) + sum(len(s) for it in g["items"] for s in it["subs"]) for g in ev["out"])
    return nout < nin or any(g["hd"] == "no" for g in ev["in"])


def _vacuity(rows):
    """Every case of the type switch must have been exercised, with and without removal, flag raised and not."""
    problems = []
    per = collections.defaultdict(lambda: {"n": 0, "removed": 0, "kept": 0, "yes": 0, "no": 0, "prior_yes": 0, "prior_yes_kept": 0, "reeval": 0})
    after = collections.Counter()
    before_ok = 0
    for e in rows:
        if e["t"] == "filter":
            s = per[e["kind"]]
            s["n"] += 1
            s["removed" if _removed(e) else "kept"] += 1
            if e["flag"] in ("yes", "no"):
                s[e["flag"]] += 1
            if e["prior"] == "yes":
                s["prior_yes"] += 1
                if not _removed(e):
                    s["prior_yes_kept"] += 1
            if e.get("seq") == 2:
                s["reeval"] += 1
        elif e["cmd"]["op"] == "resolve":
            if e["phase"] == "after":
                after[json.dumps(e["cfg"], sort_keys=True)] += 1
            if e["phase"] == "before" and e["res"]["allows"] == "yes":
                before_ok += 1
    switch = [k for k in per if k not in ("DirEntries", "TxnResults")]
    if len(switch) != N_SWITCH_CASES:
        problems.append("type switch has %d cases, exercised %d" % (N_SWITCH_CASES, len(switch)))
    for k in ("DirEntries", "TxnResults"):
        if k not in per:
            problems.append("%s not exercised" % k)
    for k, s in per.items():
        if (s["removed"] == 0 and k != "PreparedQueryOne") or s["kept"] == 0:   # **PreparedQuery is only redacted
            problems.append("%s: removal=%d no-removal=%d" % (k, s["removed"], s["kept"]))
        if (s["yes"] + s["no"]) and (s["yes"] == 0 or s["no"] == 0):
            problems.append("%s: flag yes=%d no=%d" % (k, s["yes"], s["no"]))
        if (s["yes"] + s["no"]) and s["prior_yes_kept"] == 0:
            problems.append("%s: entered with the flag raised %d times, %d of them with nothing to remove" % (k, s["prior_yes"], s["prior_yes_kept"]))
    if len(after) < 7:
        problems.append("expiry: only %d of 7 resolver configurations resolved after expiry" % len(after))
    if before_ok == 0:
        problems.append("expiry: the token was never honoured before its expiration")
    return problems, per, after


def _source_switch_cases():
    """count the cases of the type switch in the source under test (model drift guard)"""
    src = open(os.path.join(vf.REPO, "agent/structs/aclfilter/filter.go")).read()
    m = re.search(r"func \(f \*Filter\) Filter\(subject any\) \{(.*?)\n\}\n", src, re.S)
    if not m:
        return None
    return len(re.findall(r"^\tcase ", m.group(1), re.M))


SELFTEST_MUTATIONS = ["drop", "leak", "swap", "flag", "stale", "honour"]


def _selftest_rows(rows):
    """Corrupt one recorded field of events TLC accepted; each mutation must be rejected with the named predicate."""
    out = []

    def find(pred):
        return next((json.loads(json.dumps(e)) for e in rows if pred(e)), None)

    e = find(lambda e: e["t"] == "filter" and e["kind"] == "IndexedHealthChecks" and len(e["out"][0]["items"]) >= 2
             and e["out"][0]["items"][0]["lab"] != e["out"][0]["items"][1]["lab"] and len(e["in"][0]["items"]) > len(e["out"][0]["items"]))
    if e is None:
        raise vf.Infra("selftest: no suitable IndexedHealthChecks event")
    d = json.loads(json.dumps(e)); d["out"][0]["items"].pop(); out.append(("drop", "NothingDropped", d))
    d = json.loads(json.dumps(e))
    d["out"][0]["items"] = [{"lab": it["lab"], "tok": "na", "subs": []} for it in d["in"][0]["items"]]
    out.append(("leak", "NothingUnreadable", d))
    d = json.loads(json.dumps(e)); its = d["out"][0]["items"]; its[0], its[1] = its[1], its[0]; out.append(("swap", "OrderPreserved", d))
    d = json.loads(json.dumps(e)); d["prior"] = "no"; d["flag"] = "no" if d["flag"] == "yes" else "yes"; out.append(("flag", "FlagExact", d))
    y = find(lambda e: e["t"] == "filter" and e["prior"] == "yes" and e["flag"] == "no" and not _removed(e))
    if y is None:
        raise vf.Infra("selftest: no event entered with the flag raised and nothing removed")
    y["flag"] = "yes"; out.append(("stale", "FlagNotStale", y))
    x = find(lambda e: e["t"] == "expiry" and e["cmd"]["op"] == "resolve" and e["phase"] == "after")
    if x is None:
        raise vf.Infra("selftest: no resolve-after-expiry event")
    x["res"]["allows"] = "yes"; x["res"]["err"] = "none"; out.append(("honour", "ExpiredNeverHonoured", x))
    return out


def _selftest(rows, binary, work):
    """Binding demonstration (DESIGN 2.4): (i) corrupted recorded fields, (ii) shim that perturbs the real call's result.
    One TLC run over [mutated events..., shim events...]."""
    muts = _selftest_rows(rows)
    allrows = [m[2] for m in muts]
    case = {"kind": "IndexedNodes", "acl": "none", "groups": [{"key": "list", "hd": "na", "items": [
        {"n": "ok", "s": "na", "g": "na", "x": "na", "t": "na", "v": "na", "d": "no", "lab": "", "subs": []},
        {"n": "no", "s": "na", "g": "na", "x": "na", "t": "na", "v": "na", "d": "no", "lab": "", "subs": []},
        {"n": "ok", "s": "na", "g": "na", "x": "na", "t": "na", "v": "na", "d": "no", "lab": "", "subs": []}]}]}
    cf = os.path.join(work, "shim-case.json")
    json.dump([case], open(cf, "w"))
    spans = []
    for perturb, pred in (("drop-last", "NothingDropped"), ("flip-flag", "FlagExact"), ("", "")):
        sp = os.path.join(work, "shim-%s.ndjson" % (perturb or "none"))
        _harness(binary, ["filter", "-in", cf, "-out", sp, "-classes", "deny-prefix"] + (["-perturb", perturb] if perturb else []))
        sr = vf.read_ndjson(sp)
        spans.append((perturb, pred, len(allrows) + 1, len(allrows) + len(sr)))
        allrows.extend(sr)
    tp = os.path.join(work, "selftest.ndjson")
    vf.write_ndjson(tp, allrows)
    r = vf.tlc_validate("FilterTrace", "FilterTrace.cfg", tp, nevents=len(allrows), timeout=600, heap="2g")
    got = {line: names for line, names in r.rejects}
    res = {}
    for i, (name, pred, _) in enumerate(muts):
        res[name] = pred in got.get(i + 1, [])
    for perturb, pred, lo, hi in spans:
        if perturb:
            res["shim-" + perturb] = any(pred in got.get(l, []) for l in range(lo, hi + 1))
        else:
            res["shim-unperturbed-accepted"] = not any(got.get(l) for l in range(lo, hi + 1))
    return res


def run(tier):
    t0 = time.time()
    T = TIERS[tier]
    seed = vf.seed()
    n_src = _source_switch_cases()
    if n_src != N_SWITCH_CASES:
        raise vf.Infra("model drift: aclfilter.Filter type switch has %s cases, spec/Filter.tla models %d" % (n_src, N_SWITCH_CASES))
    binary = vf.build("h-filter")
    work = vf.new_scratch("verif-%s-" % PID)
    verdict = vf.Verdict(PID)
    try:
        # 1. exhaustive model check, concurrently with generation + execution
        pool = concurrent.futures.ThreadPoolExecutor(max_workers=3)
        mc_f = pool.submit(vf.tlc_mc, "FilterMC", "mc.cfg", files={"mc.cfg": _cfg("Filter_mc.cfg", T["consts"], T["mc_ops"])},
                           timeout=3000, heap="8g", workers=min(8, vf.NCPU), coverage=(tier == "thorough"))
        # 2. generation
        gx_f = pool.submit(vf.tlc_gen, "FilterMC", "genx.cfg", files={"genx.cfg": _cfg("Filter_genx.cfg", (0, 0, 0, 0), T["gen_ops"])}, timeout=1800)
        g = vf.tlc_gen("FilterMC", "gen.cfg", files={"gen.cfg": _cfg("Filter_gen.cfg", T["consts"], 0)}, timeout=3000, heap="8g")
        cases = g.traces
        gx = gx_f.result()
        hists = _dedup_histories(gx.traces)
        # 3. execution against the real code
        cf = os.path.join(work, "cases.json")
        json.dump(cases, open(cf, "w"))
        hf = os.path.join(work, "hists.json")
        json.dump(hists, open(hf, "w"))
        t_gen = os.path.join(work, "filter-gen.ndjson")
        t_rnd = os.path.join(work, "filter-rnd.ndjson")
        t_xg = os.path.join(work, "expiry-gen.ndjson")
        t_xr = os.path.join(work, "expiry-rnd.ndjson")
        m_gen = _harness(binary, ["filter", "-in", cf, "-out", t_gen, "-reps", str(T["reps"]), "-xreps", str(T["xreps"])])
        m_rnd = _harness(binary, ["random", "-seed", str(seed), "-n", str(T["rnd"]), "-out", t_rnd, "-reps", str(T["reps"]), "-xreps", str(T["xreps"])])
        m_xg = _harness(binary, ["expiry", "-in", hf, "-out", t_xg, "-par", "128"])
        m_xr = _harness(binary, ["expiry-random", "-seed", str(seed), "-n", str(T["rndx"]), "-out", t_xr, "-par", "128"])
        for m, nm in ((m_gen, "gen"), (m_rnd, "random")):
            if m["drift"]:
                raise vf.Infra("model drift (%s): %d elements whose realised readability differs from the intended facts" % (nm, m["drift"]))
        # 4. TLC judges
        rows, rej = _validate_chunks([t_gen, t_rnd, t_xg, t_xr], work, par=4, chunk=30000 if tier == "thorough" else 6000)
        infra = []
        pred_hits = collections.Counter()
        for ev, names in rej:
            for nm in names:
                if nm in ("ValidHonoured", "unknown-kind", "unknown-event"):
                    infra.append("%s on %s" % (nm, json.dumps(ev)[:600]))
                    continue
                pred_hits[nm] += 1
                if ev["t"] == "filter":
                    sig = "%s:%s:%s" % (PID, nm, ev["kind"])
                    what = "%s rejected by TLC: %s under authorizer %s acl=%s in=%s out=%s flag_on_entry=%s%s flag=%s (%d runs with fresh maps, %d distinct outcomes)" % (
                        nm, ev["kind"], ev["az"], ev["acl"], json.dumps([[(i["lab"], i["n"], i["s"], i["g"], i["x"]) for i in gr["items"]] for gr in ev["in"]])[:400],
                        json.dumps([[i["lab"] for i in gr["items"]] for gr in ev["out"]])[:300], ev["prior"],
                        " (left by a real first evaluation on the same reply object)" if ev.get("seq") == 2 else "", ev["flag"], ev["reps"], ev["outcomes"])
                    rp = {"kind": "filter-case", "case": _case_of(ev), "az": ev["az"], "predicate": nm}
                else:
                    sig = "%s:%s:%s" % (PID, nm, ev["cmd"]["op"])
                    what = "%s rejected by TLC: cfg=%s phase=%s pre=%s res=%s" % (nm, json.dumps(ev["cfg"]), ev["phase"], json.dumps(ev["pre"]), json.dumps(ev["res"]))
                    ops = [r["cmd"] for r in rows if r["t"] == "expiry" and r["src"] == ev["src"] and r["b"] == ev["b"] and r["i"] <= ev["i"]]
                    rp = {"kind": "expiry-history", "behaviour": {"cfg": ev["cfg"], "ops": ops}, "seed": seed, "b": ev["b"], "src": ev["src"], "predicate": nm}
                verdict.add(sig, what, rp)
        if infra:
            raise vf.Infra("trace events outside the model (not a verdict): %s" % "; ".join(infra[:3]))
        # rejected steps of the real code come first; vacuity / selftest problems of a run that already has a
        # violation are reported as a note (a defect may well starve a vacuity counter or the selftest's seed event)
        n_new = verdict.finish()
        problems, per, after = _vacuity(rows)
        st = {}
        try:
            if problems:
                raise vf.Infra("vacuity: " + "; ".join(problems[:6]))
            st = _selftest(rows, binary, work)
            if not all(st.values()):
                raise vf.Infra("binding selftest: mutations not rejected: %s" % sorted(k for k, v in st.items() if not v))
            mc = mc_f.result()
            if tier == "thorough" and mc.coverage_zero:
                raise vf.Infra("vacuity: model actions never taken: %s" % mc.coverage_zero[:10])
        except vf.Infra as ex:
            if not n_new:
                raise
            vf.log("note (run has violations, not an infrastructure verdict): %s" % str(ex)[:400])
            mc = mc_f.result()

        nontrivial = set()
        n_filter = n_exp = 0
        for e in rows:
            if e["t"] == "filter":
                n_filter += 1
                if _removed(e) or any(i["d"] == "yes" for gr in e["in"] for i in gr["items"]):
                    nontrivial.add(hashlib.sha1(json.dumps([e["kind"], e["az"], e["acl"], [[(i["n"], i["s"], i["g"], i["x"], i["t"], i["v"], i["d"],
                                   [[(lf["s"]) for lf in s] for s in i["subs"]]) for i in gr["items"]] + [gr["hd"]] for gr in e["in"]]]).encode()).hexdigest())
            elif e["cmd"]["op"] == "resolve":
                n_exp += 1
                if e["phase"] == "after":
                    nontrivial.add("x" + json.dumps([e["cfg"], e["pre"], e["cmd"]["api"], e["b"] if e["src"] == "gen" else -1], sort_keys=True))
        samples = []
        for want in ("IndexedNodeDump", "IndexedHealthChecks", "IndexedExportedServiceList"):
            e = next((e for e in rows if e["t"] == "filter" and e["kind"] == want and _removed(e)), None)
            if e:
                samples.append({"kind": e["kind"], "authorizer": e["az"], "input": [[(i["lab"], {k: i[k] for k in "nsgx" if i[k] != "na"}) for i in gr["items"]] for gr in e["in"]],
                                "real_output": [[i["lab"] for i in gr["items"]] for gr in e["out"]], "real_flag": e["flag"]})
        e = next((e for e in rows if e["t"] == "expiry" and e["cmd"]["op"] == "resolve" and e["phase"] == "after" and e["cfg"]["mode"] == "remote"), None)
        if e:
            samples.append({"kind": "expiry", "cfg": e["cfg"], "phase": e["phase"], "pre": e["pre"], "real_result": e["res"]})
        coverage = {
            "states": mc.distinct, "transitions": mc.generated,
            "traces_validated_against_impl": m_gen["behaviours"] + m_rnd["behaviours"] + m_xg["behaviours"] + m_xr["behaviours"],
            "impl_steps_validated": len(rows),
            "evaluations": len(rows),
            "distinct_nontrivial": len(nontrivial),
            "rule": "every arrangement TLC enumerates per concrete response type (bounds below) x 3 authorizers compiled from real policies, plus "
                    "seeded random responses (up to 12 elements, 5 map entries, shared names), goes through the real aclfilter.Filter / FilterDirEnt / "
                    "FilterTxnResults and is judged by TLC; every TLC operation history of an expiring token plus random histories goes through the "
                    "real ACLResolver. distinct_nontrivial = distinct (type, authorizer, fact arrangement) inputs in which something had to be removed or "
                    "an element was duplicated + distinct (resolver config, store/rpc state, api, history) resolutions after expiry",
            "bounds": dict(zip(["MaxSmall", "MaxMid", "MaxBig", "MaxGroups"], T["consts"]), gen_MaxOps=T["gen_ops"], mc_MaxOps=T["mc_ops"]),
            "type_switch_cases_in_source": n_src, "type_switch_cases_exercised": len([k for k in per if k not in ("DirEntries", "TxnResults")]),
            "per_type": {k: v for k, v in sorted(per.items())},
            "generated_cases": len(cases), "generated_histories": len(hists),
            "filter_events": n_filter, "expiry_resolutions": n_exp,
            "expiry_resolutions_by_phase": {k: m_xg["resolves_by_phase"].get(k, 0) + m_xr["resolves_by_phase"].get(k, 0) for k in ("before", "after", "ambiguous")},
            "expiry_after_by_config": dict(after),
            "order_dependent_cases": m_gen["order_dependent_cases"] + m_rnd["order_dependent_cases"],
            "prior_flag_true_events": sum(v["prior_yes"] for v in per.values()),
            "prior_flag_true_and_nothing_removed": sum(v["prior_yes_kept"] for v in per.values()),
            "second_evaluations_on_reused_reply": m_gen.get("reevaluations", 0) + m_rnd.get("reevaluations", 0),
            "random": {"seed": seed, "filter_cases": T["rnd"], "expiry_histories": T["rndx"]},
            "samples": samples,
            "predicates": PREDS, "predicate_doc": PRED_DOC,
            "rejected_steps_by_predicate": dict(pred_hits),
            "known_findings_matched": verdict.known_hit,
            "binding_selftest": st,
            "model_check": {"distinct": mc.distinct, "generated": mc.generated, "wall_s": round(mc.wall, 1),
                            "invariants": ["InvRefConforms", "InvFlagIgnoresPrior", "InvPredicatesBite", "InvLoopsRefine", "InvExportedFlag", "InvExpired", "InvValid", "InvMask"],
                            "actions_never_taken": mc.coverage_zero[:20]},
            "exhaustive": False,
        }
        vf.write_evidence(PID, tier, "model_checking", coverage, ASSUMPTIONS, time.time() - t0, n_new)
        return 1 if n_new else 0
    finally:
        shutil.rmtree(work, ignore_errors=True)


def replay(path):
    rp = json.load(open(path))
    r = rp.get("replay", rp)
    binary = vf.build("h-filter")
    work = vf.new_scratch("verif-replay-")
    try:
        tp = os.path.join(work, "t.ndjson")
        if r["kind"] == "filter-case":
            cf = os.path.join(work, "case.json")
            json.dump([r["case"]], open(cf, "w"))
            _harness(binary, ["filter", "-in", cf, "-out", tp, "-classes", r["az"], "-reps", "200", "-xreps", "400"])
        elif r["kind"] == "expiry-history":
            if not r["behaviour"].get("ops"):
                raise vf.Infra("random expiry history: re-run with VERIF_SEED=%s" % r.get("seed"))
            hf = os.path.join(work, "h.json")
            json.dump([r["behaviour"]], open(hf, "w"))
            _harness(binary, ["expiry", "-in", hf, "-out", tp])
        else:
            raise vf.Infra("unknown replay kind %r" % r["kind"])
        rows = vf.read_ndjson(tp)
        res = vf.tlc_validate("FilterTrace", "FilterTrace.cfg", tp, nevents=len(rows), timeout=600, heap="2g")
        bad = 0
        for line, names in res.rejects:
            e = rows[line - 1]
            names = [n for n in names if n in PREDS]
            if names:
                bad += 1
                if e["t"] == "filter":
                    print("rejected %s: %s az=%s in=%s out=%s flag=%s (%d/%d runs)" % (names, e["kind"], e["az"], json.dumps(e["in"])[:600],
                                                                                         json.dumps(e["out"])[:400], e["flag"], e["reps"], sum(x["reps"] for x in rows)))
                else:
                    print("rejected %s: %s" % (names, json.dumps(e)[:800]))
        if bad:
            print("VIOLATION property=%s replay=%s" % (PID, path))
            return 1
        print("replay accepted: %d events" % len(rows))
        return 0
    finally:
        shutil.rmtree(work, ignore_errors=True)


def selftest():
    """./bin/check C09 --selftest : binding demonstration only (small run)."""
    binary = vf.build("h-filter")
    work = vf.new_scratch("verif-selftest-")
    try:
        g = vf.tlc_gen("FilterMC", "gen.cfg", files={"gen.cfg": _cfg("Filter_gen.cfg", (2, 2, 3, 2), 0)}, timeout=900)
        cf = os.path.join(work, "cases.json")
        json.dump([c for c in g.traces if c["kind"] == "IndexedHealthChecks"], open(cf, "w"))
        tp = os.path.join(work, "f.ndjson")
        _harness(binary, ["filter", "-in", cf, "-out", tp])
        hf = os.path.join(work, "h.json")
        json.dump([{"cfg": {"mode": "remote", "ttl": "long", "down": "extend-cache"},
                    "ops": [{"op": "resolve", "api": "token"}, {"op": "expire", "api": ""}, {"op": "resolve", "api": "token"}]}], open(hf, "w"))
        xp = os.path.join(work, "x.ndjson")
        _harness(binary, ["expiry", "-in", hf, "-out", xp])
        rows = vf.read_ndjson(tp) + vf.read_ndjson(xp)
        st = _selftest(rows, binary, work)
        os.makedirs(os.path.join(vf.VERIF, "evidence", "selftest"), exist_ok=True)
        json.dump(st, open(os.path.join(vf.VERIF, "evidence", "selftest", "C09.json"), "w"), indent=1)
        print("selftest:", st)
        return 0 if all(st.values()) else 2
    finally:
        shutil.rmtree(work, ignore_errors=True)
